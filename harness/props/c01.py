"""C01 — Dask-backed rasters give the NumPy result for every chunking and scheduler.

Part 1 (facts translator): /repo/xrspatial/*.py ==> coq/C01/Generated.v (one record per Dask plan).
Part 2 (harness): relational oracle NumPy backend vs Dask backend over chunkings / schedulers / dtypes / kernels, and
the correspondence of the extracted Coq model (whole-raster and chunked evaluation) with both backends."""
import ast
import os

FILES = ['slope.py', 'aspect.py', 'curvature.py', 'hillshade.py', 'convolution.py', 'focal.py', 'classify.py',
         'multispectral.py', 'perlin.py', 'terrain.py', 'utils.py']
REDUCTIONS = {'nanmin', 'nanmax', 'nanmean', 'nanstd', 'nanvar', 'nansum', 'min', 'max', 'amin', 'amax', 'ptp',
              'mean', 'std', 'var', 'sum', 'percentile', 'nanpercentile', 'median', 'nanmedian', 'any', 'all'}
GPU_WORDS = ('cupy', 'gpu', 'cuda')
# elementwise / shape-only callables a block array may be passed through without widening the radius
ELEMENTWISE = {'sqrt', 'arctan', 'arctan2', 'sin', 'cos', 'exp', 'mod', 'where', 'isnan', 'isfinite', 'logical_or',
               'logical_and', 'abs', 'asarray', 'float32', 'float64', 'int'}
SHAPE_ONLY = {'zeros_like', 'empty_like', 'full_like', 'ones_like', 'len'}


class FactsError(Exception):
    pass


def fail(msg, node=None, fn=''):
    where = ''
    if node is not None and hasattr(node, 'lineno'):
        where = ' (%s line %d)' % (fn, node.lineno)
    raise FactsError(msg + where)


# ------------------------------------------------------------------ affine intervals
class Aff(dict):
    """affine form: symbol -> integer coefficient; symbols: '1', 'cell0', 'cell1', 'hr', 'hc'"""

    def add(self, o, sign=1):
        r = Aff(self)
        for k, v in o.items():
            r[k] = r.get(k, 0) + sign * v
            if r[k] == 0:
                del r[k]
        return r

    def gallina(self):
        terms = []
        for k in sorted(self):
            v = self[k]
            sym = {'1': None, 'hr': '(kr / 2)', 'hc': '(kc / 2)'}.get(k, '?')
            if sym == '?':
                raise FactsError('cell variable left in an offset: %r' % dict(self))
            terms.append('(%d)' % v if sym is None else '(%d) * %s' % (v, sym))
        return ' + '.join(terms) if terms else '0'


def const(c):
    return Aff({'1': c}) if c else Aff()


class Module:
    def __init__(self, repo, fname):
        self.fname = fname
        self.path = os.path.join(repo, 'xrspatial', fname)
        self.tree = ast.parse(open(self.path).read(), self.path)
        self.funcs = {}
        self.imports = {}
        for n in self.tree.body:
            if isinstance(n, ast.FunctionDef):
                self.funcs[n.name] = n
            elif isinstance(n, ast.ImportFrom) and n.module is not None:
                base = n.module.split('.')[-1] + '.py'
                for a in n.names:
                    self.imports[a.asname or a.name] = (base, a.name)


class World:
    def __init__(self, repo):
        self.mods = {f: Module(repo, f) for f in FILES}

    def resolve(self, fname, name):
        """(file, FunctionDef) of a module-level function visible under `name` in `fname`, or None"""
        m = self.mods[fname]
        if name in m.funcs:
            return fname, m.funcs[name]
        if name in m.imports:
            f2, n2 = m.imports[name]
            if f2 in self.mods and n2 in self.mods[f2].funcs:
                return f2, self.mods[f2].funcs[n2]
        return None


def is_gpu_name(name):
    return any(w in name.lower() for w in GPU_WORDS)


def decorators(fd):
    out = []
    for d in fd.decorator_list:
        out.append(ast.unparse(d))
    return out


def is_gpu_func(fd):
    return is_gpu_name(fd.name) or any('cuda' in d for d in decorators(fd))


def single_assignments(fd):
    """name -> value expr for names assigned exactly once by a plain `name = expr` (tuple targets are split
    when the value is a tuple of the same length; `a, b = X.shape` gives ('shape', X, index))"""
    counts = {}
    vals = {}

    def note(name, val):
        counts[name] = counts.get(name, 0) + 1
        vals[name] = val
    for n in ast.walk(fd):
        if isinstance(n, ast.Assign) and len(n.targets) == 1:
            t = n.targets[0]
            if isinstance(t, ast.Name):
                note(t.id, n.value)
            elif isinstance(t, ast.Tuple) and all(isinstance(e, ast.Name) for e in t.elts):
                if isinstance(n.value, ast.Tuple) and len(n.value.elts) == len(t.elts):
                    for e, v in zip(t.elts, n.value.elts):
                        note(e.id, v)
                else:
                    for i, e in enumerate(t.elts):
                        note(e.id, ('unpack', n.value, i))
        elif isinstance(n, (ast.AugAssign,)) and isinstance(n.target, ast.Name):
            counts[n.target.id] = counts.get(n.target.id, 0) + 2
        elif isinstance(n, ast.For) and isinstance(n.target, ast.Name):
            counts[n.target.id] = counts.get(n.target.id, 0) + 2
    return {k: v for k, v in vals.items() if counts[k] == 1}


def loop_ranges(fd, fname):
    """loop variable -> (lo expr or None, hi expr) for `for v in range/prange(...)` loops (step 1 only)"""
    out = {}
    for n in ast.walk(fd):
        if isinstance(n, ast.For) and isinstance(n.target, ast.Name):
            it = n.iter
            if isinstance(it, ast.Call) and ast.unparse(it.func) in ('range', 'prange', 'nb.prange', 'numba.prange'):
                a = it.args
                if len(a) == 1:
                    rng = (None, a[0])
                elif len(a) == 2:
                    rng = (a[0], a[1])
                elif len(a) == 3 and isinstance(a[2], ast.Constant) and a[2].value == 1:
                    rng = (a[0], a[1])
                else:
                    fail('loop with a step other than 1', n, fname)
                if n.target.id in out:
                    # the same variable used by two loops: keep only if identical
                    if ast.dump(ast.Tuple(elts=[x for x in out[n.target.id] if x is not None], ctx=ast.Load())) != \
                            ast.dump(ast.Tuple(elts=[x for x in rng if x is not None], ctx=ast.Load())):
                        fail('loop variable %s reused with different ranges' % n.target.id, n, fname)
                out[n.target.id] = rng
            else:
                out[n.target.id] = 'other'
    return out


class KernelAnalysis:
    """radius of one mapped kernel function with respect to its block parameters"""

    def __init__(self, world, fname, fd, block_params, depth=0):
        self.w = world
        self.fname = fname
        self.fd = fd
        self.block = set(block_params)
        self.assign = single_assignments(fd)
        self.loops = loop_ranges(fd, fname)
        self.params = [a.arg for a in fd.args.args]
        self.radius = [[const(0), const(0)], [const(0), const(0)]]   # axis -> [lo, hi] affine (no cell terms)
        self.radius_g = None
        self.block_reductions = []
        self.notes = []
        self.depth = depth
        self.cell = None
        if depth > 4:
            fail('kernel call chain too deep', fd, fname)

    # -- shape symbols -------------------------------------------------
    def shape_axis(self, e):
        """'kr'/'kc' if e denotes kernel.shape[0]/[1] (possibly through a local name)"""
        if isinstance(e, ast.Subscript) and isinstance(e.value, ast.Attribute) and e.value.attr == 'shape' and \
                isinstance(e.value.value, ast.Name) and e.value.value.id == 'kernel' and isinstance(e.slice, ast.Constant):
            return {0: 'kr', 1: 'kc'}.get(e.slice.value)
        if isinstance(e, ast.Name) and e.id in self.assign:
            v = self.assign[e.id]
            if isinstance(v, tuple) and v[0] == 'unpack':
                src = v[1]
                if isinstance(src, ast.Attribute) and src.attr == 'shape' and isinstance(src.value, ast.Name) and \
                        src.value.id == 'kernel':
                    return {0: 'kr', 1: 'kc'}.get(v[2])
                return None
            return self.shape_axis(v)
        return None

    def half_symbol(self, e):
        """'hr'/'hc' if e is kernel.shape[i] // 2 or int(kernel.shape[i] / 2)"""
        if isinstance(e, ast.BinOp) and isinstance(e.op, ast.FloorDiv) and isinstance(e.right, ast.Constant) and \
                e.right.value == 2:
            ax = self.shape_axis(e.left)
            return {'kr': 'hr', 'kc': 'hc'}.get(ax)
        if isinstance(e, ast.Call) and isinstance(e.func, ast.Name) and e.func.id == 'int' and len(e.args) == 1:
            a = e.args[0]
            if isinstance(a, ast.BinOp) and isinstance(a.op, ast.Div) and isinstance(a.right, ast.Constant) and \
                    a.right.value == 2:
                ax = self.shape_axis(a.left)
                return {'kr': 'hr', 'kc': 'hc'}.get(ax)
        return None

    # -- interval evaluation ---------------------------------------------
    def interval(self, e, seen=()):
        """(lo, hi) affine bounds (inclusive) of an index expression, or None"""
        if isinstance(e, ast.Constant) and isinstance(e.value, int) and not isinstance(e.value, bool):
            return const(e.value), const(e.value)
        if isinstance(e, ast.UnaryOp) and isinstance(e.op, ast.USub):
            r = self.interval(e.operand, seen)
            if r is None:
                return None
            return Aff().add(r[1], -1), Aff().add(r[0], -1)
        hs = self.half_symbol(e)
        if hs:
            return Aff({hs: 1}), Aff({hs: 1})
        if isinstance(e, ast.Name):
            if self.cell and e.id in self.cell:
                k = 'cell%d' % self.cell.index(e.id)
                return Aff({k: 1}), Aff({k: 1})
            if e.id in seen:
                return None
            if e.id in self.loops:
                rng = self.loops[e.id]
                if rng == 'other':
                    return None
                lo = (const(0), const(0)) if rng[0] is None else self.interval(rng[0], seen + (e.id,))
                hi = self.interval(rng[1], seen + (e.id,))
                if lo is None or hi is None:
                    return None
                return lo[0], hi[1].add(const(1), -1)
            if e.id in self.assign:
                v = self.assign[e.id]
                if isinstance(v, tuple):
                    hs2 = None
                    return None
                return self.interval(v, seen + (e.id,))
            return None
        if isinstance(e, ast.BinOp) and isinstance(e.op, (ast.Add, ast.Sub)):
            a = self.interval(e.left, seen)
            b = self.interval(e.right, seen)
            if a is None or b is None:
                return None
            if isinstance(e.op, ast.Add):
                return a[0].add(b[0]), a[1].add(b[1])
            return a[0].add(b[1], -1), a[1].add(b[0], -1)
        if isinstance(e, ast.Call) and isinstance(e.func, ast.Name) and e.func.id in ('max', 'min') and len(e.args) == 2:
            # clamps against the array edge only shrink the range: dropping them over-approximates (sound for
            # the obligation radius <= depth)
            cands = [self.interval(a, seen) for a in e.args]
            cell_cands = [c for c in cands if c is not None and any(k.startswith('cell') for k in c[0])]
            if len(cell_cands) == 1:
                return cell_cands[0]
            return None
        return None

    def offset(self, e, axis, node):
        r = self.interval(e)
        if r is None:
            fail('index expression %r of a block array is not an affine offset of the output cell' % ast.unparse(e),
                 node, self.fname)
        ck = 'cell%d' % axis
        other = 'cell%d' % (1 - axis)
        for b in r:
            if b.get(ck, 0) != 1 or other in b:
                fail('index expression %r on axis %d is not relative to the output cell\'s axis-%d index' % (
                    ast.unparse(e), axis, axis), node, self.fname)
        lo = Aff(r[0]); hi = Aff(r[1])
        del lo[ck]; del hi[ck]
        return lo, hi

    def widen(self, axis, lo, hi):
        self.bounds[axis].append((lo, hi))

    # -- main walk -------------------------------------------------------
    def find_cell_vars(self):
        """the (row, col) variables of the `out[y, x] = ...` stores into a local (non-parameter) array"""
        cells = set()
        for n in ast.walk(self.fd):
            if isinstance(n, (ast.Assign, ast.AugAssign)):
                targets = n.targets if isinstance(n, ast.Assign) else [n.target]
                for t in targets:
                    if isinstance(t, ast.Subscript) and isinstance(t.value, ast.Name) and \
                            isinstance(t.slice, ast.Tuple) and len(t.slice.elts) == 2 and \
                            all(isinstance(e, ast.Name) for e in t.slice.elts) and \
                            all(e.id in self.loops for e in t.slice.elts) and t.value.id not in self.params:
                        cells.add((t.slice.elts[0].id, t.slice.elts[1].id))
        if len(cells) > 1:
            fail('several different output-cell index pairs in %s: %r' % (self.fd.name, sorted(cells)), self.fd, self.fname)
        return list(cells)[0] if cells else None

    def run(self):
        fd = self.fd
        self.bounds = [[], []]
        self.cell = self.find_cell_vars()
        parents = {}
        for n in ast.walk(fd):
            for c in ast.iter_child_nodes(n):
                parents[c] = n
        derived = set(self.block)
        # propagate "is (elementwise-derived from) a block array" through simple assignments, to a fixpoint
        changed = True
        while changed:
            changed = False
            for n in ast.walk(fd):
                if isinstance(n, ast.Assign) and len(n.targets) == 1:
                    t = n.targets[0]
                    names = [t.id] if isinstance(t, ast.Name) else \
                        [e.id for e in t.elts if isinstance(e, ast.Name)] if isinstance(t, ast.Tuple) else []
                    if not names:
                        continue
                    if self.mentions(n.value, derived) and self.whole_array_expr(n.value, derived):
                        for nm in names:
                            if nm not in derived:
                                derived.add(nm)
                                changed = True
        self.derived = derived
        for n in ast.walk(fd):
            if isinstance(n, ast.Name) and n.id in derived and isinstance(n.ctx, ast.Load):
                self.classify_use(n, parents)
        # radius per axis = max over all reads
        self.radius_g = []
        for axis in (0, 1):
            terms = []
            for lo, hi in self.bounds[axis]:
                terms.append('Z.abs (%s)' % lo.gallina())
                terms.append('Z.abs (%s)' % hi.gallina())
            uniq = []
            for t in terms:
                if t not in uniq:
                    uniq.append(t)
            g = '0'
            for t in uniq:
                g = 'Z.max (%s) (%s)' % (g, t)
            self.radius_g.append(g)
        return self

    def mentions(self, e, names):
        return any(isinstance(x, ast.Name) and x.id in names for x in ast.walk(e))

    def whole_array_expr(self, e, derived):
        """True if e denotes a whole array derived from block arrays (not a scalar read out of one)"""
        if isinstance(e, ast.Name):
            return e.id in derived
        if isinstance(e, ast.Subscript):
            # a slice of a block array is an array; a [y, x] element read is a scalar
            if isinstance(e.value, ast.Name) and e.value.id in derived:
                sl = e.slice
                elts = sl.elts if isinstance(sl, ast.Tuple) else [sl]
                return any(isinstance(x, ast.Slice) for x in elts)
            return False
        if isinstance(e, ast.Call):
            f = e.func
            if isinstance(f, ast.Attribute) and f.attr == 'astype':
                return self.whole_array_expr(f.value, derived)
            if isinstance(f, ast.Attribute) and f.attr in ELEMENTWISE | {'gradient'}:
                return any(self.whole_array_expr(a, derived) for a in e.args)
            if isinstance(f, ast.Name) and self.w.resolve(self.fname, f.id):
                return any(self.whole_array_expr(a, derived) for a in e.args)
            return False
        if isinstance(e, ast.BinOp):
            return self.whole_array_expr(e.left, derived) or self.whole_array_expr(e.right, derived)
        if isinstance(e, ast.UnaryOp):
            return self.whole_array_expr(e.operand, derived)
        if isinstance(e, ast.Tuple):
            return any(self.whole_array_expr(x, derived) for x in e.elts)
        return False

    def classify_use(self, n, parents):
        p = parents.get(n)
        fn = self.fname
        # data[...] read
        if isinstance(p, ast.Subscript) and p.value is n:
            if isinstance(p.ctx, ast.Store):
                return
            sl = p.slice
            elts = sl.elts if isinstance(sl, ast.Tuple) else None
            if elts is None or len(elts) != 2:
                fail('block array %s indexed with %r (expected [row, col])' % (n.id, ast.unparse(sl)), p, fn)
            if self.cell is None:
                fail('kernel %s reads %s but has no out[y, x] store to anchor the cell' % (self.fd.name, ast.unparse(p)), p, fn)
            for axis, e in enumerate(elts):
                if isinstance(e, ast.Slice):
                    if e.step is not None or e.lower is None or e.upper is None:
                        fail('open or stepped slice %r of a block array' % ast.unparse(p), p, fn)
                    lo = self.offset(e.lower, axis, p)[0]
                    hi = self.offset(e.upper, axis, p)[1].add(const(1), -1)
                    self.widen(axis, lo, hi)
                else:
                    lo, hi = self.offset(e, axis, p)
                    self.widen(axis, lo, hi)
            return
        # data.shape / data.dtype / data.astype(..) / data.fill
        if isinstance(p, ast.Attribute) and p.value is n:
            if p.attr in ('shape', 'dtype', 'astype', 'ndim', 'size'):
                return
            fail('unrecognised attribute .%s of block array %s' % (p.attr, n.id), p, fn)
        # arithmetic / comparison on the whole array: elementwise
        if isinstance(p, (ast.BinOp, ast.UnaryOp, ast.Compare, ast.Tuple, ast.Return, ast.Assign)):
            if isinstance(p, ast.Tuple):
                return self.classify_use_tuple(p, parents)
            return
        if isinstance(p, ast.keyword):
            p = parents.get(p)
        if isinstance(p, ast.Call):
            f = p.func
            fname_txt = ast.unparse(f)
            attr = f.attr if isinstance(f, ast.Attribute) else (f.id if isinstance(f, ast.Name) else None)
            if attr in SHAPE_ONLY:
                return
            if isinstance(f, ast.Attribute) and attr == 'gradient':
                if len(p.args) != 1 or p.keywords:
                    fail('np.gradient with spacing/edge_order arguments', p, fn)
                # central differences inside, one-sided first differences on the edge rows/cols: radius 1
                self.widen(0, const(-1), const(1))
                self.widen(1, const(-1), const(1))
                return
            if attr in REDUCTIONS and (isinstance(f, ast.Attribute)):
                # a reduction applied directly to a block array / whole derived array
                arg = p.args[0] if p.args else None
                if isinstance(arg, ast.Name) and arg.id in self.derived and not self.is_window(arg.id):
                    self.block_reductions.append('%s(%s) in %s' % (fname_txt, arg.id, self.fd.name))
                return
            if attr in ELEMENTWISE:
                return
            if isinstance(f, ast.Name):
                tgt = self.w.resolve(self.fname, f.id)
                if tgt is not None:
                    f2, fd2 = tgt
                    params2 = [a.arg for a in fd2.args.args]
                    blk2 = []
                    for i, a in enumerate(p.args):
                        if self.mentions(a, self.derived) and self.whole_array_expr(a, self.derived) and i < len(params2):
                            blk2.append(params2[i])
                    for kw in p.keywords:
                        if kw.arg and self.mentions(kw.value, self.derived) and self.whole_array_expr(kw.value, self.derived):
                            blk2.append(kw.arg)
                    key = (f2, fd2.name, tuple(sorted(blk2)))
                    if not hasattr(self, '_done'):
                        self._done = set()
                    if key in self._done:
                        return
                    self._done.add(key)
                    sub = KernelAnalysis(self.w, f2, fd2, blk2, self.depth + 1).run()
                    for axis in (0, 1):
                        self.bounds[axis] += sub.bounds[axis]
                    self.block_reductions += sub.block_reductions
                    return
            fail('block array %s passed to unrecognised callable %s' % (n.id, fname_txt), p, fn)
        if isinstance(p, (ast.Subscript,)):
            return
        fail('unrecognised use of block array %s in %s: %s' % (n.id, self.fd.name, type(p).__name__), n, fn)

    def classify_use_tuple(self, p, parents):
        return

    def is_window(self, name):
        """a local name bound to a bounded slice of a block array (e.g. kernel_data = data[bottom:top, left:right])"""
        v = self.assign.get(name)
        return isinstance(v, ast.Subscript)


# ------------------------------------------------------------------ plan sites
def kw(call, name):
    for k in call.keywords:
        if k.arg == name:
            return k.value
    return None


def resolve_mapped(world, fname, encl, fexpr, node):
    """mapped callable -> (file, FunctionDef, number of leading positional params bound by partial, bound keywords)"""
    assign = single_assignments(encl)
    bound_pos = 0
    bound_kw = []
    e = fexpr
    if isinstance(e, ast.Name) and e.id in assign and not isinstance(assign[e.id], tuple):
        e = assign[e.id]
    if isinstance(e, ast.Call) and ast.unparse(e.func) in ('partial', 'functools.partial'):
        if not e.args or not isinstance(e.args[0], ast.Name):
            fail('partial() of something that is not a plain function name', node, fname)
        bound_pos = len(e.args) - 1
        bound_kw = [k.arg for k in e.keywords]
        e = e.args[0]
    if isinstance(e, ast.Lambda):
        fail('mapped function is a lambda (not analysable)', node, fname)
    if not isinstance(e, ast.Name):
        fail('mapped function expression %r not recognised' % ast.unparse(fexpr), node, fname)
    tgt = world.resolve(fname, e.id)
    if tgt is None:
        fail('mapped function %s is not a module-level function of the anchored files' % e.id, node, fname)
    return tgt[0], tgt[1], bound_pos, bound_kw


def depth_gallina(encl, dexpr, node, fname):
    ka = KernelAnalysis(None, fname, encl, [])

    def one(e):
        if isinstance(e, ast.Constant) and isinstance(e.value, int) and not isinstance(e.value, bool):
            return '%d' % e.value
        hs = ka.half_symbol(e)
        if hs is None and isinstance(e, ast.Name) and e.id in ka.assign and not isinstance(ka.assign[e.id], tuple):
            hs = ka.half_symbol(ka.assign[e.id])
            if hs is None and isinstance(ka.assign[e.id], ast.Constant) and isinstance(ka.assign[e.id].value, int):
                return '%d' % ka.assign[e.id].value
        if hs is None:
            fail('depth component %r is neither an integer literal nor kernel.shape[i] // 2' % ast.unparse(e), node, fname)
        return {'hr': 'kr / 2', 'hc': 'kc / 2'}[hs]
    if dexpr is None:
        fail('map_overlap without depth=', node, fname)
    if isinstance(dexpr, ast.Tuple) and len(dexpr.elts) == 2:
        return '(%s, %s)' % (one(dexpr.elts[0]), one(dexpr.elts[1]))
    if isinstance(dexpr, ast.Constant) and isinstance(dexpr.value, int):
        return '(%d, %d)' % (dexpr.value, dexpr.value)
    fail('depth=%s not recognised (expected a (rows, cols) tuple or an int)' % ast.unparse(dexpr), node, fname)


def boundary_gallina(bexpr, node, fname):
    if bexpr is None:
        return 'BNone'
    txt = ast.unparse(bexpr)
    if txt in ('np.nan', 'numpy.nan', 'np.NaN', 'nan', 'math.nan', "float('nan')"):
        return 'BNaN'
    if isinstance(bexpr, ast.Constant):
        v = bexpr.value
        if isinstance(v, bool) or v is None:
            return 'BOther "%s"' % txt
        if isinstance(v, (int, float)) and float(v) == int(v):
            return 'BConst (%d)' % int(v)
        if isinstance(v, str):
            return 'BOther "%s"' % v.replace('"', "'")
    if isinstance(bexpr, ast.UnaryOp) and isinstance(bexpr.op, ast.USub) and isinstance(bexpr.operand, ast.Constant) \
            and isinstance(bexpr.operand.value, int):
        return 'BConst (%d)' % -bexpr.operand.value
    return 'BOther "%s"' % txt.replace('"', "'")


def name_gallina(encl, call):
    """the explicit task/layer name of a map_blocks/map_overlap call, as data:
    NameAuto (no name=: Dask tokenizes the function and every argument itself), NameToken [uncovered] (name built
    with dask tokenize(...); `uncovered` = parameters of the enclosing function that reach the mapped call but are
    not covered by the token), NameFixed (a name that does not depend on the arguments at all)."""
    nexpr = kw(call, 'name')
    if nexpr is None or (isinstance(nexpr, ast.Constant) and nexpr.value is None):
        return 'NameAuto'
    assign = single_assignments(encl)
    params = [a.arg for a in encl.args.args]

    def closure(e, seen=()):
        out = set()
        for n in ast.walk(e):
            if isinstance(n, ast.Name):
                if n.id in params:
                    out.add(n.id)
                elif n.id in assign and n.id not in seen and not isinstance(assign[n.id], tuple):
                    out |= closure(assign[n.id], seen + (n.id,))
        return out

    def token_args(e, seen=()):
        """params covered by tokenize(...) calls inside the name expression"""
        out = None
        for n in ast.walk(e):
            if isinstance(n, ast.Call) and ast.unparse(n.func).split('.')[-1] == 'tokenize':
                out = (out or set())
                for a in list(n.args) + [k.value for k in n.keywords]:
                    out |= closure(a)
            elif isinstance(n, ast.Name) and n.id in assign and n.id not in seen and not isinstance(assign[n.id], tuple):
                sub = token_args(assign[n.id], seen + (n.id,))
                if sub is not None:
                    out = (out or set()) | sub
        return out
    covered = token_args(nexpr)
    if covered is None:
        return 'NameFixed'
    used = set()
    f = call.func
    if isinstance(f, ast.Attribute) and not (isinstance(f.value, ast.Name) and f.value.id == 'da'):
        used |= closure(f.value)
    for a in call.args:
        used |= closure(a)
    for k in call.keywords:
        if k.arg not in ('name', 'meta', 'dtype'):
            used |= closure(k.value)
    uncovered = [x for x in params if x in used and x not in covered]
    return 'NameToken [%s]' % '; '.join(coq_str(x) + '%string' for x in uncovered)


def calls_in(fd):
    return [n for n in ast.walk(fd) if isinstance(n, ast.Call)]


def reach(world, fname, start_names):
    """set of (file, function name) reachable through calls to module-level functions (names, partial(), lambdas,
    ArrayTypeFunctionMapping keyword values)"""
    seen = set()
    todo = []
    for nm in start_names:
        t = world.resolve(fname, nm)
        if t:
            todo.append(t)
    while todo:
        f, fd = todo.pop()
        if (f, fd.name) in seen:
            continue
        seen.add((f, fd.name))
        for n in ast.walk(fd):
            if isinstance(n, ast.Name) and isinstance(n.ctx, ast.Load):
                t = world.resolve(f, n.id)
                if t and (t[0], t[1].name) not in seen:
                    todo.append(t)
    return seen


def names_in(e):
    return [n.id for n in ast.walk(e) if isinstance(n, ast.Name)]


def dispatchers(world):
    """every ArrayTypeFunctionMapping(...) call and hillshade-style isinstance chain: (file, numpy names, dask names)"""
    out = []
    for fname, m in world.mods.items():
        for fd in m.funcs.values():
            for c in calls_in(fd):
                if ast.unparse(c.func) == 'ArrayTypeFunctionMapping':
                    kws = {k.arg: k.value for k in c.keywords}
                    if 'numpy_func' not in kws or 'dask_func' not in kws:
                        fail('ArrayTypeFunctionMapping call without numpy_func=/dask_func= keywords', c, fname)
                    out.append((fname, names_in(kws['numpy_func']), names_in(kws['dask_func'])))
            # if isinstance(agg.data, np.ndarray): out = F(...) ... elif isinstance(agg.data, da.Array): out = G(...)
            np_names, da_names = [], []
            for n in ast.walk(fd):
                if isinstance(n, ast.If) and isinstance(n.test, ast.Call) and ast.unparse(n.test.func) == 'isinstance' \
                        and len(n.test.args) == 2:
                    ty = ast.unparse(n.test.args[1])
                    body_names = [x for s in n.body for x in names_in(s)]
                    if ty in ('np.ndarray', 'numpy.ndarray'):
                        np_names += body_names
                    elif ty in ('da.Array', 'dask.array.Array'):
                        da_names += body_names
            if np_names and da_names:
                out.append((fname, np_names, da_names))
    return out


# ------------------------------------------------------------------ coordinate-ramp plans (perlin / generate_terrain)
class _Subst(ast.NodeTransformer):
    def __init__(self, mapping):
        self.mapping = mapping

    def visit_Name(self, node):
        if node.id in self.mapping:
            return ast.parse(self.mapping[node.id], mode='eval').body
        return node


def canon(e, mapping):
    import copy
    return ast.unparse(_Subst(mapping).visit(copy.deepcopy(e)))


def shape_names(fd):
    """names bound by `h, w = <array>.shape` -> 'rows' / 'cols'"""
    out = {}
    for n in ast.walk(fd):
        if isinstance(n, ast.Assign) and len(n.targets) == 1 and isinstance(n.targets[0], ast.Tuple) and \
                len(n.targets[0].elts) == 2 and isinstance(n.value, ast.Attribute) and n.value.attr == 'shape':
            a, b = n.targets[0].elts
            if isinstance(a, ast.Name) and isinstance(b, ast.Name):
                out[a.id] = 'rows'
                out[b.id] = 'cols'
    return out


def coord_ramp(fd, expr, mapping, fname):
    """a coordinate argument of the per-cell kernel -> the linspace ramp feeding it, or None when the argument is not
    derived from a meshgrid.  Fail-closed once a meshgrid is involved."""
    assign = single_assignments(fd)
    mult = '1'
    e = expr
    if isinstance(e, ast.BinOp) and isinstance(e.op, ast.Mult):
        mult = canon(e.right, mapping)
        e = e.left
    if not isinstance(e, ast.Name) or e.id not in assign:
        return None
    v = assign[e.id]
    if not (isinstance(v, tuple) and v[0] == 'unpack' and isinstance(v[1], ast.Call) and
            isinstance(v[1].func, ast.Attribute) and v[1].func.attr == 'meshgrid'):
        return None
    mg = v[1]
    if len(mg.args) != 2 or mg.keywords:
        fail('meshgrid with other than two positional ramps (indexing= etc.) is not modelled', mg, fname)
    idx = v[2]
    lname = mg.args[idx]
    if not isinstance(lname, ast.Name) or lname.id not in assign or isinstance(assign[lname.id], tuple):
        fail('meshgrid argument %r is not a single-assignment ramp' % ast.unparse(lname), mg, fname)
    ls = assign[lname.id]
    if not (isinstance(ls, ast.Call) and isinstance(ls.func, ast.Attribute) and ls.func.attr == 'linspace'):
        fail('ramp %s is not built by linspace' % lname.id, ls, fname)
    if len(ls.args) != 3:
        fail('linspace with other than (start, stop, num) positional arguments', ls, fname)
    endpoint = True
    dtype = ''
    for k in ls.keywords:
        if k.arg == 'endpoint' and isinstance(k.value, ast.Constant) and isinstance(k.value.value, bool):
            endpoint = k.value.value
        elif k.arg == 'dtype':
            dtype = ast.unparse(k.value)
        else:
            fail('linspace keyword %s= is not modelled' % k.arg, ls, fname)
    m2 = dict(mapping)
    m2.update(shape_names(fd))
    # default indexing='xy': output 0 varies along the columns (axis 1) with the first ramp, output 1 along the rows
    return dict(axis=1 - idx, ramp=lname.id, start=canon(ls.args[0], m2), stop=canon(ls.args[1], m2),
                num=canon(ls.args[2], m2), endpoint=endpoint, dtype=dtype, mult=mult,
                module=ast.unparse(ls.func.value), mesh_module=ast.unparse(mg.func.value))


def numpy_coord_ramps(world, kernel_key, n_bound, n_coord, disp_reach, dask_site):
    """the NumPy-path call of the same per-cell kernel with coordinate arguments: -> (site, [ramp, ...])"""
    found = []
    for df, nr, dr in disp_reach:
        if dask_site not in dr:
            continue
        for (f2, name2) in sorted(nr):
            fd2 = world.mods[f2].funcs[name2]
            if is_gpu_func(fd2) or (f2, name2) in dr and any(
                    isinstance(x.func, ast.Attribute) and x.func.attr in ('map_blocks', 'map_overlap') for x in calls_in(fd2)):
                continue
            for c in calls_in(fd2):
                if isinstance(c.func, ast.Name):
                    t = world.resolve(f2, c.func.id)
                    if t and (t[0], t[1].name) == kernel_key and len(c.args) == n_bound + n_coord and not c.keywords:
                        # parameter names of this function as seen from its (single) caller on the NumPy path
                        mapping = {}
                        callers = []
                        for (f3, name3) in sorted(nr):
                            fd3 = world.mods[f3].funcs[name3]
                            for c3 in calls_in(fd3):
                                if isinstance(c3.func, ast.Name) and world.resolve(f3, c3.func.id) == (f2, fd2):
                                    callers.append((fd3, c3))
                        if len(callers) > 1:
                            fail('%s has several call sites on the NumPy path' % name2, fd2, f2)
                        if callers:
                            fd3, c3 = callers[0]
                            params2 = [a.arg for a in fd2.args.args]
                            for i, a in enumerate(c3.args):
                                if i < len(params2):
                                    mapping[params2[i]] = '(%s)' % ast.unparse(a) if not isinstance(a, ast.Name) else a.id
                            for k in c3.keywords:
                                if k.arg:
                                    mapping[k.arg] = '(%s)' % ast.unparse(k.value) if not isinstance(k.value, ast.Name) else k.value.id
                        ramps = [coord_ramp(fd2, a, mapping, f2) for a in c.args[n_bound:]]
                        if any(r is None for r in ramps):
                            fail('NumPy-path call of %s does not take meshgrid coordinates' % kernel_key[1], c, f2)
                        found.append(('%s:%s' % (f2, name2), ramps))
    uniq = []
    for x in found:
        if x not in uniq:
            uniq.append(x)
    if len(uniq) != 1:
        fail('expected exactly one NumPy-path call of %s with coordinate ramps, found %d' % (kernel_key[1], len(uniq)))
    return uniq[0]


def collect(repo):
    world = World(repo)
    disp = dispatchers(world)
    disp_reach = [(f, reach(world, f, nn), reach(world, f, dn)) for f, nn, dn in disp]
    plans = []
    reductions = []
    coords = []
    for fname in FILES:
        m = world.mods[fname]
        for fd in m.funcs.values():
            if is_gpu_func(fd):
                continue
            for c in calls_in(fd):
                f = c.func
                if not (isinstance(f, ast.Attribute) and f.attr in ('map_overlap', 'map_blocks', 'map_partitions',
                                                                    'blockwise', 'reduction')):
                    if isinstance(f, ast.Attribute) and isinstance(f.value, ast.Name) and f.value.id in ('da', 'np', 'module') \
                            and f.attr in REDUCTIONS and fname != 'utils.py':
                        # plan-level functions only: they hold a map_* call themselves, or dispatch on `module`
                        plan_level = f.value.id == 'module' or any(
                            isinstance(x.func, ast.Attribute) and x.func.attr in ('map_overlap', 'map_blocks')
                            for x in calls_in(fd))
                        if plan_level:
                            arg = ast.unparse(c.args[0]) if c.args else ''
                            reductions.append((fname, fd.name, '%s.%s' % (f.value.id, f.attr), arg))
                    continue
                if f.attr not in ('map_overlap', 'map_blocks'):
                    fail('Dask plan primitive .%s is not modelled' % f.attr, c, fname)
                if not c.args:
                    fail('%s without a function argument' % f.attr, c, fname)
                module_form = isinstance(f.value, ast.Name) and f.value.id == 'da'
                if f.attr == 'map_overlap' and module_form:
                    fail('da.map_overlap(func, x, ...) form is not modelled (only x.map_overlap)', c, fname)
                for k in c.keywords:
                    if k.arg not in ('depth', 'boundary', 'meta', 'dtype', 'name'):
                        fail('%s keyword %s= is not modelled' % (f.attr, k.arg), c, fname)
                taskname = name_gallina(fd, c)
                f2, kfd, bound_pos, bound_kw = resolve_mapped(world, fname, fd, c.args[0], c)
                if is_gpu_func(kfd):
                    continue
                params = [a.arg for a in kfd.args.args]
                free = [p for p in params[bound_pos:] if p not in bound_kw]
                nblock = (len(c.args) - 1) if module_form else 1
                if nblock > len(free):
                    fail('more block arguments than free parameters of %s' % kfd.name, c, fname)
                block_params = free[:nblock]
                ka = KernelAnalysis(world, f2, kfd, block_params).run()
                if f.attr == 'map_overlap':
                    depth = depth_gallina(fd, kw(c, 'depth'), c, fname)
                    boundary = boundary_gallina(kw(c, 'boundary'), c, fname)
                    kind = 'MapOverlap'
                else:
                    depth = '(0, 0)'
                    boundary = 'BNone'
                    kind = 'MapBlocks'
                # same kernel on the NumPy backend of some dispatcher whose Dask side reaches this plan
                same = False
                for df, nr, dr in disp_reach:
                    if (fname, fd.name) in dr and (f2, kfd.name) in nr:
                        same = True
                plans.append(dict(site='%s:%s' % (fname, fd.name), mapped='%s:%s' % (f2, kfd.name), kind=kind,
                                  depth=depth, boundary=boundary, radius='(%s, %s)' % (ka.radius_g[0], ka.radius_g[1]),
                                  block_reductions=ka.block_reductions, same=same, line=c.lineno,
                                  block_params=block_params, taskname=taskname))
                # coordinate-ramp plan: the block arguments are the outputs of a meshgrid of linspace ramps
                if f.attr == 'map_blocks' and module_form:
                    ramps = [coord_ramp(fd, a, {}, fname) for a in c.args[1:]]
                    if any(r is not None for r in ramps):
                        if any(r is None for r in ramps) or len(ramps) != 2:
                            fail('map_blocks mixes meshgrid coordinates with other block arguments', c, fname)
                        nsite, nramps = numpy_coord_ramps(world, (f2, kfd.name), bound_pos, len(ramps), disp_reach,
                                                          (fname, fd.name))
                        if len(nramps) != 2:
                            fail('NumPy-path kernel call does not take two coordinates', c, fname)
                        coords.append(dict(site='%s:%s' % (fname, fd.name), numpy_site=nsite, dask=ramps, numpy=nramps,
                                           params=block_params))
    if not plans:
        fail('no Dask plan found at all in the anchored files')
    return plans, reductions, coords


def coq_str(s):
    return '"%s"' % s.replace('"', "'")


def generate(repo):
    plans, reductions, coords = collect(repo)
    L = []
    L.append('(* GENERATED by harness/props/c01_facts.py from %s/xrspatial on every run of ./check C01 — do not edit.' % '<repo>')
    L.append('   One record per Dask plan (map_overlap / map_blocks call outside the CUDA/CuPy code). *)')
    L.append('Require Import Base.Prelude.')
    L.append('Require Import Coq.Strings.String.')
    L.append('')
    L.append('Inductive boundary := BNaN | BConst (z : Z) | BNone | BOther (s : string).')
    L.append('Inductive mapkind := MapOverlap | MapBlocks.')
    L.append('(* NameAuto: no name=, Dask tokenizes function + all arguments; NameToken u: name built with tokenize(..), u = the')
    L.append('   arguments reaching the mapped call that the token leaves out; NameFixed: argument-independent name *)')
    L.append('Inductive taskname := NameAuto | NameToken (uncovered : list string) | NameFixed.')
    L.append('Record plan := mkPlan {')
    L.append('  p_site : string;                 (* file:function holding the call *)')
    L.append('  p_mapped : string;               (* the NumPy kernel that is mapped (through partial / wrappers) *)')
    L.append('  p_kind : mapkind;')
    L.append('  p_depth : Z -> Z -> Z * Z;       (* depth=(rows, cols) as a function of kernel.shape = (kr, kc) *)')
    L.append('  p_boundary : boundary;')
    L.append('  p_radius : Z -> Z -> Z * Z;      (* how far the kernel reads from the output cell: (rows, cols) *)')
    L.append('  p_block_reductions : list string;(* reductions over a whole block inside the mapped kernel *)')
    L.append('  p_same_kernel : bool;            (* the NumPy backend of the same dispatcher runs this kernel *)')
    L.append('  p_name : taskname                (* explicit name= of the Dask layer, if any *)')
    L.append('}.')
    L.append('')
    L.append('Definition plans : list plan := [')
    rows = []
    for p in plans:
        br = '[' + '; '.join(coq_str(x) + '%string' for x in p['block_reductions']) + ']'
        rows.append('  (* line %d, block params %s *)\n  mkPlan %s %s %s\n    (fun kr kc : Z => %s) (%s)\n    (fun kr kc : Z => %s)\n    (%s)%%list %s (%s)' % (
            p['line'], ' '.join(p['block_params']), coq_str(p['site']), coq_str(p['mapped']), p['kind'], p['depth'],
            p['boundary'], p['radius'], br, 'true' if p['same'] else 'false', p['taskname']))
    L.append(';\n'.join(rows))
    L.append('].')
    L.append('')
    L.append('(* reductions taken at plan level (on whole arrays), as (site, operation, argument) *)')
    L.append('Definition global_reductions : list (string * string * string) := [')
    L.append(';\n'.join('  (%s%%string, %s%%string, %s%%string)' % (coq_str('%s:%s' % (f, fn)), coq_str(op), coq_str(arg)) for f, fn, op, arg in reductions))
    L.append('].')
    L.append('')
    L.append('(* coordinate-ramp plans: a per-cell kernel k(x, y) mapped over the blocks of meshgrid(linx, liny); for each of the')
    L.append('   two coordinate arguments the linspace that feeds it, on the Dask path and on the NumPy path. Expressions are')
    L.append('   the source text with `h, w = a.shape` renamed rows/cols and callee parameters renamed to the caller\'s names *)')
    L.append('Record ramp := mkRamp {')
    L.append('  r_axis : Z;            (* the raster axis the coordinate varies along: 0 rows, 1 columns (meshgrid, indexing xy) *)')
    L.append('  r_start : string; r_stop : string; r_num : string; r_endpoint : bool; r_dtype : string;')
    L.append('  r_mult : string        (* factor applied to the coordinate before the kernel *)')
    L.append('}.')
    L.append('Record coordplan := mkCoord {')
    L.append('  cp_site : string; cp_numpy_site : string;')
    L.append('  cp_dask_x : ramp; cp_dask_y : ramp;      (* first / second coordinate argument of the kernel, Dask path *)')
    L.append('  cp_numpy_x : ramp; cp_numpy_y : ramp     (* the same on the NumPy path *)')
    L.append('}.')

    def ramp_g(r):
        return '(mkRamp %d %s %s %s %s %s %s)' % (r['axis'], coq_str(r['start']), coq_str(r['stop']), coq_str(r['num']),
                                                 'true' if r['endpoint'] else 'false', coq_str(r['dtype']), coq_str(r['mult']))
    L.append('Definition coord_plans : list coordplan := [')
    L.append(';\n'.join('  mkCoord %s %s\n    %s\n    %s\n    %s\n    %s' % (
        coq_str(cp['site']), coq_str(cp['numpy_site']), ramp_g(cp['dask'][0]), ramp_g(cp['dask'][1]),
        ramp_g(cp['numpy'][0]), ramp_g(cp['numpy'][1])) for cp in coords))
    L.append('].')
    L.append('')
    L.append('Definition n_plans : Z := %d.' % len(plans))
    return '\n'.join(L) + '\n', plans, reductions




# =====================================================================================================
#  harness: relational oracle (NumPy backend vs Dask backend) + model correspondence
# =====================================================================================================
import math
import os as _os

import numpy as np

ID = 'C01'
RULE = ('for each of the 27 public functions the property lists (slope aspect curvature hillshade; focal mean/apply/'
        'focal_stats/hotspots; convolution_2d; binary reclassify equal_interval; arvi evi gci nbr nbr2 ndvi ndmi savi sipi '
        'ebbi true_color; perlin generate_terrain): rasters H,W in 1..12 with NaN/+-inf cells at random and structured '
        'places (whole row / column / frame), dtypes int8..int64, uint8..uint64, float32/float64 and (rarely) float16; '
        'cell sizes x != y via coords or the res attribute; raster layouts: dims y/x, lat/lon, row/col, dim_0/dim_1, with and '
        'without coordinates, descending y, extra scalar coordinates; odd kernels of every shape <= raster (non-square '
        'included); chunkings: all-ones, single chunk, one block tall x several wide and vice versa, chunks no larger '
        'than the kernel half-width, random compositions of H and of W (thorough: ALL compositions for H,W <= 4), '
        'different chunkings per band; schedulers synchronous and threads x {1,2,4,16}. Parameters: mean passes 0..6 and '
        'excludes lists ([], [0], [nan,0], [v], [nan,v,w]); equal_interval k in 1..64; hillshade azimuth 0..360 and altitude '
        '0..90 (integers and fractions); evi c1/c2/soil_factor/gain, savi soil_factor in [-1,1]; true_color nodata incl. 0, '
        'negative, fractional, c and th; reclassify 1..12 bins incl. an inf last bin; hotspots incl. large-offset / '
        'small-spread rasters (|mean|/std 1e2..1e5) with planted clusters; perlin unequal freq, seeds incl. 0; '
        'generate_terrain seeds incl. 0, zfactor, x_range/y_range/full_extent with unequal x/y fractions. The quick tier '
        'draws the dtype from a seed-dependent subset (3 integer widths + float32/64, sometimes float16); thorough and '
        'search() use all. A last stream uses float32 / float16 rasters on decimal grids (multiples of 0.1, 0.01, 0.05, 0.3, 0.7) '
        'whose cells sit exactly at and one ulp around the cut points the NumPy path derives in the raster dtype '
        '(equal_interval k in 2..10), decimal cell sizes for slope/aspect/curvature/hillshade, true_color/hotspots on '
        'decimal grids, fractional perlin freq and generate_terrain ranges/full_extent with unequal x/y fractions, so that '
        'a global scalar derived in another precision on one backend flips a class. A second stream builds 2-3 lazy results of a parametrised function on the SAME Dask rasters with '
        'different parameter values (e.g. reclassify with the same bins and different new_values) and computes them in ONE '
        'dask.compute. Correspondence extras: hillshade with the sun at the zenith vs the gradient model (|diff| <= 3e-6); '
        'perlin / generate_terrain with the noise kernel replaced by the x- resp. y-coordinate vs the ramp model, whole and '
        'blockwise (|diff| <= 3e-5 x scale). Oracle = the same call on the NumPy-backed raster: result must be a dask Array '
        'before compute and after compute equal shape/dtype/bits (NaN==NaN) for the same-kernel functions; stated '
        'tolerances: hotspots classes may differ only where |z| is within max(1e-4, 16*eps32*(|mean|/std + |z|)) of a '
        'confidence threshold (global float32 mean/std reduced per block); perlin |diff| <= tol and generate_terrain '
        '|diff| <= tol*zfactor or a water-threshold (0.3) flip within that tolerance, tol = max(2e-6, 2 eps(template dtype)) '
        'for perlin and max(2e-6, 32 eps(template dtype)) for terrain (the NumPy path computes and normalises in the '
        'template dtype, the Dask path in float32; da.linspace coordinates). Cases where the NumPy call itself raises are '
        'outside the domain (counted under outside-domain/ in the input distribution). Non-trivial = distinct by JSON.')
TRUSTED = [
    'Dask itself: that x.map_overlap(f, depth, boundary=nan) hands f the block plus a halo taken from the neighbouring '
    'blocks / NaN outside the raster (re-chunking when a chunk is smaller than the depth), trims depth cells and '
    'concatenates — this is the Gallina definition map_overlap/pad_nan/trim/vcat_all/hcat_all; exercised on every run '
    'by comparing the model\'s chunked result with the real Dask result (conv, curvature, focal apply, focal mean)',
    'the facts translator (ast walk in this module) that regenerates coq/C01/Generated.v: mapped kernel, depth, '
    'boundary, kernel read radius, block-level reductions, same-kernel dispatch, plan-level reductions; fail-closed',
    'LocalNaN is proved for the model kernels (stencil with NaN frame, convolution with clamped loops, focal apply, '
    'per-cell) over abstract arithmetic whose + and * absorb NaN; that IEEE float32/float64 arithmetic and libm '
    'atan/atan2/sqrt absorb NaN is assumed; the executable instances use exact integers with NaN (xv)',
    'np.gradient (spacing 1, edge_order 1) is transcribed as grad1d in Model.v and checked against hillshade() with the sun '
    'at the zenith on every run; np.nanmean/nansum/nanmin/nanmax and the vectorised trig of hillshade are NumPy primitives',
    'np.linspace / da.linspace / meshgrid(indexing xy) are transcribed as ramp / block_starts / coord_whole / coord_blocks; '
    'checked on every run by replacing the noise kernel with a coordinate projection (probe) on both backends',
]
ASSUMPTIONS = [
    'NumPy-backed and Dask-on-NumPy-backed rasters only (no CuPy); H, W >= 1; kernels odd and no larger than the raster '
    '(Dask refuses a halo deeper than the array); inputs on which the NumPy call raises (slope/curvature on a 1-row '
    'raster without res, hillshade on < 2 rows, hotspots with zero variance, equal_interval on constant data, '
    'mean with excludes=[] and passes >= 1 (Numba cannot type the empty tuple), float16 rasters in the Numba kernels that '
    'refuse half precision, perlin/terrain on integer templates) have no reference result and are not compared',
    'schedulers: synchronous and threads with 1/4/16 workers are run; the model has no schedule (every block task is a '
    'pure function of its padded block)',
]
PARTIAL = [
    'global reductions: proved that the block cells are a permutation of the raster cells and that any '
    'associative-commutative reduction (flat or per-block-then-combined) is chunking independent — this is exact for '
    'min/max (true_color, equal_interval, perlin, terrain) and for the sum at the exact instance only; float32/float64 '
    'summation (hotspots nanmean/nanstd) is not associative, so there the property holds "to float rounding" and is '
    'checked by the oracle with the stated threshold tolerance, not by a theorem',
    'perlin / generate_terrain coordinate ramps: chunked = whole is proved in exact arithmetic (any structure where + is '
    'associative and i*step distributes: Z, Q, R); in float32 da.linspace\'s running block start differs from np.linspace '
    'by rounding, so the implementation is compared with an absolute tolerance (2e-6 x scale, water-threshold flips '
    'allowed), not bit for bit; the NumPy path also normalises in the template dtype',
    'the `schedules` quantifier: no model of the scheduler; independence is by construction (pure block tasks) and by the '
    'multi-threaded oracle runs (synchronous, threads x 1/4/16)',
    'the per-cell formulas themselves are not C01\'s subject: slope/aspect with libm (C08), classify (C12), spectral '
    'indices (C13), the Perlin noise function; the model executes convolution, curvature (cellsize 1), focal apply '
    'sum/max/min, focal mean (1 pass), the hillshade gradient stage (sun at zenith) and the coordinate ramps',
]
LEVEL_TEXT = ('Proved in Coq for all raster sizes, all chunkings (list positive summing to H resp. W), all halo depths '
              'and kernel radii: map_overlap / map_blocks / iterated map_overlap (focal mean passes) of any LocalNaN kernel '
              'equals the whole-raster kernel cell for cell; the source-shaped kernels (NaN-framed stencils of slope/aspect/'
              'curvature, clamped-loop convolution of any kr x kc, focal apply with any reducer, clipped 3x3 nanmean, '
              'hillshade = np.gradient with one-sided edges + NaN frame, per-cell) are LocalNaN; block cells are a '
              'permutation of raster cells so associative-commutative global reductions do not depend on the chunking; the '
              'chunks of da.linspace are the slices of the whole linspace and map_blocks of any per-cell function over the '
              'chunked coordinate meshgrid equals the whole evaluation (perlin, generate_terrain; exact arithmetic). Over '
              'the tables regenerated from the source on every run: every halo depth >= kernel radius in (rows, cols) '
              'order for every kernel shape, boundary = NaN, no block-level reduction inside a mapped kernel, same kernel '
              'on both backends, no argument-blind layer name, global reductions at plan level, and each coordinate ramp '
              'fed from the same range / length / endpoint rule as on the NumPy path (x along columns, y along rows). '
              'Correspondence/oracle only: float summation order and float32 ramp rounding (tolerances in RULE), '
              'schedulers, dtype handling, and that Dask implements the modelled overlap/trim/concatenate/linspace semantics.')
LEVEL_NOTE = ('trusted: Dask\'s overlap/trim/concatenate semantics as transcribed in Model.v (checked against real Dask '
              'output each run), the ast facts translator, NaN-absorption of IEEE arithmetic/libm, NumPy primitives '
              '(nanmean, gradient, vectorised trig); no Coq axioms')
KEY_EI = 'equal_interval-dask-typeerror'
KEY_META = 'dask-meta-dtype'

_PLANS = None


def facts(repo):
    global _PLANS
    src, plans, reds = generate(repo)
    _PLANS = plans
    return {'Generated.v': src}


def plan_depth(site, kr, kc):
    """depth=(rows, cols) the source's plan uses, evaluated from the generated Gallina expression"""
    global _PLANS
    if _PLANS is None:
        _PLANS = collect(_os.environ.get('VERIF_REPO', '/repo'))[0]
    for p in _PLANS:
        if p['site'] == site:
            d = eval(p['depth'].replace(' / ', ' // '), {'kr': kr, 'kc': kc})
            return int(d[0]), int(d[1])
    raise KeyError(site)


# ------------------------------------------------------------------ inputs
INT_DT = ['int8', 'int16', 'int32', 'int64', 'uint8', 'uint16', 'uint32', 'uint64']
FLT_DT = ['float32', 'float64', 'float16']
ALL_DT = INT_DT + FLT_DT
# float16 is drawn rarely: most Numba kernels refuse it on the NumPy path (outside the domain)
DT_WEIGHTED = INT_DT + ['float32', 'float64'] * 3 + ['float16']
SCHEDS = [('synchronous', 1), ('threads', 1), ('threads', 2), ('threads', 4), ('threads', 16)]

SURFACE = ['slope', 'aspect', 'curvature', 'hillshade']
KERNELLED = ['convolution_2d', 'apply', 'focal_stats', 'hotspots']
SPECTRAL3 = ['arvi', 'evi', 'sipi', 'ebbi']
SPECTRAL2 = ['gci', 'nbr', 'nbr2', 'ndvi', 'ndmi', 'savi']
ALL_FNS = SURFACE + ['mean'] + KERNELLED + ['binary', 'reclassify', 'equal_interval'] + SPECTRAL3 + SPECTRAL2 + \
    ['true_color', 'perlin', 'generate_terrain']
APPLY_FUNCS = ['_calc_mean', '_calc_sum', '_calc_min', '_calc_max', '_calc_std', '_calc_range', '_calc_var']
STATS = ['mean', 'max', 'min', 'range', 'std', 'var', 'sum']


def composition(rng, n, maxpart=None):
    out = []
    while n > 0:
        k = rng.randint(1, min(n, maxpart) if maxpart else n)
        out.append(k)
        n -= k
    return out


def all_compositions(n):
    if n == 0:
        return [[]]
    out = []
    for first in range(1, n + 1):
        for rest in all_compositions(n - first):
            out.append([first] + rest)
    return out


def gen_chunks(rng, H, W, style, half=(1, 1)):
    if style == 'ones':
        return [[1] * H, [1] * W]
    if style == 'single':
        return [[H], [W]]
    if style == 'rowstrip':   # one block tall, several wide
        return [[H], composition(rng, W, max(1, W // 2))]
    if style == 'colstrip':   # several tall, one block wide
        return [composition(rng, H, max(1, H // 2)), [W]]
    if style == 'small':      # no chunk larger than the kernel half-width (at least 1)
        return [composition(rng, H, max(1, half[0])), composition(rng, W, max(1, half[1]))]
    return [composition(rng, H), composition(rng, W)]


def gen_data(rng, H, W, dtype, kind='small'):
    lo, hi = {'small': (-5, 20), 'pos': (0, 60), 'spectral': (0, 3000), 'tiny': (0, 4)}[kind]
    if dtype.startswith('uint'):
        lo = max(lo, 0)
    if dtype == 'uint8':
        hi = min(hi, 200)
    if dtype == 'int8':
        hi = min(hi, 100)
    vals = [[float(rng.randint(lo, hi)) for _ in range(W)] for _ in range(H)]
    if dtype in FLT_DT:
        frac = rng.random() < 0.4
        for r in range(H):
            for c in range(W):
                if frac and rng.random() < 0.5:
                    vals[r][c] += rng.randint(0, 7) / 8.0
                u = rng.random()
                if u < 0.07:
                    vals[r][c] = float('nan')
                elif u < 0.10:
                    vals[r][c] = float('inf')
                elif u < 0.12:
                    vals[r][c] = float('-inf')
    if dtype in FLT_DT and H * W > 1 and rng.random() < 0.15:
        # structured NaN placement: a whole row / column / the frame (chunk borders and halos see only NaN)
        how = rng.choice(['row', 'col', 'frame'])
        for r in range(H):
            for c in range(W):
                if (how == 'row' and r == H // 2) or (how == 'col' and c == W // 2) or \
                        (how == 'frame' and (r in (0, H - 1) or c in (0, W - 1))):
                    vals[r][c] = float('nan')
    return vals


def gen_hotspot_offset(rng, H, W):
    """large offset, small spread (|mean|/std about 1e2 .. 1e5) with a planted 3x3 cluster: every value is an integer
    below 2^24, so it is exact in float32 and the classes are well defined"""
    off, sp = rng.choice([(3000, 5), (3000, 20), (30000, 5), (30000, 20), (300000, 5), (300000, 20), (300000, 200),
                          (2000000, 20), (2000000, 200)])
    d = [[float(off + rng.randint(-sp, sp)) for _ in range(W)] for _ in range(H)]
    for sign in (1, -1):
        y0, x0 = rng.randrange(max(1, H - 2)), rng.randrange(max(1, W - 2))
        for y in range(y0, min(H, y0 + 3)):
            for x in range(x0, min(W, x0 + 3)):
                d[y][x] += sign * 3 * sp
    return d


LAYOUTS = [
    dict(dims=['y', 'x'], coords=True, scalar=False, desc=False),
    dict(dims=['y', 'x'], coords=True, scalar=False, desc=False),
    dict(dims=['y', 'x'], coords=True, scalar=True, desc=False),      # extra scalar coordinates (band, spatial_ref)
    dict(dims=['y', 'x'], coords=True, scalar=False, desc=True),      # north-up raster: y descending
    dict(dims=['lat', 'lon'], coords=True, scalar=True, desc=True),
    dict(dims=['row', 'col'], coords=False, scalar=False, desc=False),  # no coordinates at all
    dict(dims=['dim_0', 'dim_1'], coords=False, scalar=True, desc=False),
]


def gen_kernel(rng, H, W, binary, force=None):
    kr = rng.choice([k for k in (1, 3, 5, 7, 9, 11) if k <= H])
    kc = rng.choice([k for k in (1, 3, 5, 7, 9, 11) if k <= W])
    if force:
        kr, kc = force
    if binary:
        k = [[float(rng.randint(0, 1)) for _ in range(kc)] for _ in range(kr)]
        k[rng.randrange(kr)][rng.randrange(kc)] = 1.0
    else:
        k = [[float(rng.choice([0, 1, 1, 2, 3, -1, 0.5])) for _ in range(kc)] for _ in range(kr)]
    return k


TERRAIN_EXTENTS = [
    # (x_range, y_range, full_extent): the tile covers a DIFFERENT fraction of the extent in x than in y
    ((0, 250), (250, 500), (0, 0, 500, 500)),
    ((100, 200), (0, 500), (0, 0, 500, 500)),
    ((-20, 20), (5, 10), (-40, 0, 40, 20)),
    ((0, 500), (0, 125), (0, 0, 1000, 500)),
    # equal fractions / whole extent / default
    ((0, 250), (0, 250), (0, 0, 500, 500)),
    ((0, 500), (0, 500), None),
    (None, None, None),
]


def terrain_params(rng, case, asym=None):
    """generate_terrain: seed (0 included), zfactor, and x_range / y_range / full_extent combinations"""
    case['seed'] = rng.choice([0, 1, 10]) if rng.random() < 0.4 else rng.randint(0, 1000)
    case['zfactor'] = rng.choice([4000, 100, 1, 2.5])
    if asym is None:
        asym = rng.random() < 0.6
    xr_, yr_, fe = rng.choice(TERRAIN_EXTENTS[:4]) if asym else rng.choice(TERRAIN_EXTENTS[4:])
    case['x_range'] = list(xr_) if xr_ is not None else None
    case['y_range'] = list(yr_) if yr_ is not None else None
    case['full_extent'] = list(fe) if fe is not None else None


# quick tier: every dtype costs one Numba specialisation per kernel, so one run draws from a seed-dependent subset
# (3 integer widths + float32/float64, float16 in some runs); thorough and search() use every dtype
_DT_POOL = None


def gen_case(rng, fn, H=None, W=None, style=None, sched=None):
    H = H or rng.randint(1, 12)
    W = W or rng.randint(1, 12)
    if fn in ('perlin', 'generate_terrain'):
        dtype = rng.choice(FLT_DT)
    else:
        dtype = rng.choice(_DT_POOL or DT_WEIGHTED)
    style = style or rng.choice(['ones', 'single', 'small', 'random', 'random', 'rowstrip', 'colstrip'])
    sched = sched or rng.choice(SCHEDS)
    case = dict(fn=fn, H=H, W=W, dtype=dtype, sched=sched[0], workers=sched[1], style=style)
    cs = rng.choice([(1.0, 1.0), (2.0, 0.5), (10.0, 30.0), (0.25, 4.0)])   # (x, y) cell sizes
    case['cellsize'] = list(cs)
    case['res_attr'] = bool(H == 1 or W == 1 or rng.random() < 0.4)
    case['layout'] = rng.choice(LAYOUTS[:4]) if fn == 'true_color' else rng.choice(LAYOUTS)   # true_color reads r['y'], r['x']
    half = (1, 1)
    if fn in SURFACE or fn == 'mean':
        case['data'] = gen_data(rng, H, W, dtype, 'small')
        if fn == 'hillshade':
            case['azimuth'] = rng.choice([225, 0, 90, 315, 360, 17, rng.randint(0, 360), round(rng.uniform(0, 360), 2)])
            case['angle_altitude'] = rng.choice([25, 45, 0, 90, rng.randint(0, 90), round(rng.uniform(0, 90), 2)])
        if fn == 'mean':
            case['passes'] = rng.choice([0, 1, 1, 2, 3, 4, 6])
            case['excludes'] = rng.choice([None, None, [], [0.0], [float('nan'), 0.0], [float(rng.randint(-5, 20))],
                                           [float('nan'), float(rng.randint(-5, 20)), float(rng.randint(-5, 20))]])
    elif fn in KERNELLED:
        case['data'] = gen_data(rng, H, W, dtype, 'small')
        case['kernel'] = gen_kernel(rng, H, W, binary=(fn != 'convolution_2d'))
        half = (len(case['kernel']) // 2, len(case['kernel'][0]) // 2)
        if fn == 'hotspots' and H >= 4 and W >= 4 and dtype not in ('int8', 'uint8', 'int16', 'uint16', 'float16') \
                and rng.random() < 0.35:
            case['data'] = gen_hotspot_offset(rng, H, W)
            case['kind'] = 'offset'
        if fn == 'apply':
            case['func'] = rng.choice(APPLY_FUNCS)
        if fn == 'focal_stats':
            case['stats'] = rng.sample(STATS, rng.randint(1, 3))
    elif fn == 'binary':
        case['data'] = gen_data(rng, H, W, dtype, 'tiny')
        vals = [float(rng.randint(0, 4)) for _ in range(rng.randint(1, 3))]
        if rng.random() < 0.3:
            vals.append(float('nan'))
        if rng.random() < 0.2:
            vals.append(float('inf'))
        case['values'] = vals
    elif fn == 'reclassify':
        case['data'] = gen_data(rng, H, W, dtype, 'small')
        nb_ = rng.choice([1, 2, 3, 4, 5, 8, 12])
        cur = rng.randint(-6, 2)
        bins = []
        for _ in range(nb_):
            cur += rng.randint(0, 6)
            bins.append(float(cur))
        if rng.random() < 0.25:
            bins[-1] = float('inf')
        case['bins'] = bins
        case['new_values'] = [float(rng.randint(0, 9)) + rng.choice([0, 0, 0.5]) for _ in range(nb_)]
    elif fn == 'equal_interval':
        case['data'] = gen_data(rng, H, W, dtype, 'small')
        case['k'] = rng.choice([1, 2, 3, 4, 5, 6, 7, 9, 12, 16, 32, 64, rng.randint(2, 64)])
    elif fn in SPECTRAL3 + SPECTRAL2 + ['true_color']:
        nb_ = 3 if fn in SPECTRAL3 + ['true_color'] else 2
        kind = 'spectral' if dtype not in ('int8', 'uint8') else 'pos'
        case['data'] = gen_data(rng, H, W, dtype, kind)
        case['data2'] = gen_data(rng, H, W, dtype, kind)
        if nb_ == 3:
            case['data3'] = gen_data(rng, H, W, dtype, kind)
        if fn == 'savi':
            case['soil_factor'] = rng.choice([1.0, 0.5, 0.0, -1.0, round(rng.uniform(-1, 1), 3)])
        if fn == 'evi' and rng.random() < 0.6:
            case['evi_params'] = dict(c1=rng.choice([6.0, 1, 0.0, round(rng.uniform(0, 10), 2)]),
                                      c2=rng.choice([7.5, 2, 0.0, round(rng.uniform(0, 10), 2)]),
                                      soil_factor=rng.choice([1.0, 0.0, -1.0, 0.25]),
                                      gain=rng.choice([2.5, 0.0, 1, 10.0]))
        if fn == 'true_color':
            case['nodata'] = rng.choice([1, 0, 5, -1, -9999, 0.5, 1000])
            case['c'] = rng.choice([10.0, 5.0, 1.0, 25.0])
            case['th'] = rng.choice([0.125, 0.5, 0.0, 1.0])
    elif fn == 'perlin':
        case['freq'] = [rng.choice([1, 2, 3, 4, 7]), rng.choice([1, 2, 3, 4, 5])]   # (x, y) multipliers, mostly unequal
        case['seed'] = rng.choice([0, 0, 1, 5]) if rng.random() < 0.4 else rng.randint(0, 1000)
    elif fn == 'generate_terrain':
        terrain_params(rng, case)
    case['chunks'] = gen_chunks(rng, H, W, style, half)
    if 'data2' in case:
        # bands arrive with their own chunking (validate_arrays must align them)
        same = rng.random() < 0.4
        case['chunks2'] = case['chunks'] if same else gen_chunks(rng, H, W, rng.choice(['ones', 'random', 'single']))
        if 'data3' in case:
            case['chunks3'] = case['chunks'] if same else gen_chunks(rng, H, W, rng.choice(['ones', 'random', 'single']))
    return case


# ------------------------------------------------------------------ running the implementation
def _relayout(a, how):
    """the same logical values in another memory layout (theme: memory layout of every array argument)"""
    if how == 'F':
        return np.asfortranarray(a)
    if how == 'T':
        return np.ascontiguousarray(a.T).T
    if how == 'strided':
        big = np.zeros((a.shape[0] * 2, a.shape[1] * 3), dtype=a.dtype)
        big[::2, ::3] = a
        return big[::2, ::3]
    if how == 'reversed':
        return np.ascontiguousarray(a[::-1, ::-1])[::-1, ::-1]
    if how == 'ro':
        b = a.copy()
        b.setflags(write=False)
        return b
    return a


def _arr(vals, dtype):
    if dtype not in FLT_DT and all(isinstance(v, int) and not isinstance(v, bool) for row in vals for v in row):
        return np.array(vals, dtype=dtype)          # exact (values above 2**53 survive)
    a = np.array([[float(v) for v in row] for row in vals], dtype='float64')
    if dtype in FLT_DT:
        return a.astype(dtype)
    return np.nan_to_num(a, nan=0.0, posinf=0.0, neginf=0.0).astype(dtype)


def _mk(a, case, chunks=None):
    import dask.array as da
    import xarray as xr
    H, W = a.shape
    csx, csy = case.get('cellsize', [1.0, 1.0])
    lay = case.get('layout') or LAYOUTS[0]
    attrs = {'res': (csx, csy)} if (case.get('res_attr') or not lay['coords']) else {}
    data = a if chunks is None else da.from_array(a, chunks=(tuple(chunks[0]), tuple(chunks[1])))
    dy, dx = lay['dims']
    coords = {}
    if lay['coords']:
        co = case.get('coord') or {}
        ys = co.get('oy', 0.0) + np.arange(H) * csy
        xs = co.get('ox', 0.0) + np.arange(W) * csx
        coords = {dy: ys[::-1].copy() if lay['desc'] else ys, dx: xs[::-1].copy() if co.get('desc_x') else xs}
    if lay['scalar']:
        coords['band'] = 1
        coords['spatial_ref'] = 0
    return xr.DataArray(data, dims=[dy, dx], coords=coords, attrs=attrs)


def make_bands(case, dask_backed):
    """the input rasters of the case (1-3 bands) as NumPy- or Dask-backed DataArrays"""
    fn = case['fn']
    dt = case['dtype']
    out = {}
    for key, ck in (('data', 'chunks'), ('data2', 'chunks2'), ('data3', 'chunks3')):
        if key != 'data' and key not in case:
            continue
        if fn in ('perlin', 'generate_terrain'):
            a = np.zeros((case['H'], case['W']), dtype=dt)
        else:
            a = _arr(case[key], dt)
        a = _relayout(a, (case.get('memlayout') or {}).get(key))
        out[key] = _mk(a, case, case[ck] if dask_backed else None)
    return out


def pconv(case, lst):
    """list-valued parameters as python floats (default), python ints, tuples, or numpy arrays of another dtype"""
    how = case.get('param_as')
    if how == 'pyint' and all(float(v) == int(v) for v in lst if v == v and abs(v) != float('inf')) and \
            all(v == v and abs(v) != float('inf') for v in lst):
        return [int(v) for v in lst]
    if how == 'tuple':
        return tuple(lst)
    if how in ('int32', 'int64', 'uint8') and all(v == v and abs(v) != float('inf') and float(v) == int(v) and
                                                  (how != 'uint8' or 0 <= v < 256) for v in lst):
        return np.array(lst, dtype=how)
    if how in ('float32', 'float64'):
        return np.array(lst, dtype=how)
    return list(lst)


def call_fn(case, dask_backed, bands=None):
    """the public call of the case on NumPy-backed (dask_backed=False) or Dask-backed rasters"""
    import xrspatial
    from xrspatial import classify, convolution, focal, multispectral
    fn = case['fn']
    if bands is None:
        bands = make_bands(case, dask_backed)

    def band(key, ck):
        return bands[key]
    r = band('data', 'chunks')
    if fn == 'slope':
        return xrspatial.slope(r)
    if fn == 'aspect':
        return xrspatial.aspect(r)
    if fn == 'curvature':
        return xrspatial.curvature(r)
    if fn == 'hillshade':
        return xrspatial.hillshade(r, azimuth=case['azimuth'], angle_altitude=case['angle_altitude'])
    if fn == 'mean':
        if case.get('excludes') is not None:
            return focal.mean(r, passes=case['passes'], excludes=list(case['excludes']))
        return focal.mean(r, passes=case['passes'])
    if fn in KERNELLED:
        k = np.array(case['kernel'], dtype=case.get('kernel_dtype', 'float64'))
        if fn == 'convolution_2d':
            return convolution.convolution_2d(r, k)
        if fn == 'apply':
            return focal.apply(r, k, func=getattr(focal, case['func']))
        if fn == 'focal_stats':
            return focal.focal_stats(r, k, stats_funcs=list(case['stats']))
        return focal.hotspots(r, k)
    if fn == 'binary':
        return classify.binary(r, pconv(case, case['values']))
    if fn == 'reclassify':
        return classify.reclassify(r, bins=pconv(case, case['bins']), new_values=pconv(case, case['new_values']))
    if fn == 'equal_interval':
        return classify.equal_interval(r, k=case['k'])
    if fn == 'evi' and case.get('evi_params'):
        return multispectral.evi(r, band('data2', 'chunks2'), band('data3', 'chunks3'), **case['evi_params'])
    if fn in SPECTRAL3:
        return getattr(multispectral, fn)(r, band('data2', 'chunks2'), band('data3', 'chunks3'))
    if fn == 'savi':
        return multispectral.savi(r, band('data2', 'chunks2'), soil_factor=case['soil_factor'])
    if fn in SPECTRAL2:
        return getattr(multispectral, fn)(r, band('data2', 'chunks2'))
    if fn == 'true_color':
        return multispectral.true_color(r, band('data2', 'chunks2'), band('data3', 'chunks3'), nodata=case['nodata'],
                                        c=case['c'], th=case['th'])
    if fn == 'perlin':
        return xrspatial.perlin(r, freq=tuple(case['freq']), seed=case['seed'])
    if fn == 'generate_terrain':
        kwargs = {}
        if case.get('x_range') is not None:
            kwargs['x_range'] = tuple(case['x_range'])
            kwargs['y_range'] = tuple(case['y_range'])
        if case.get('full_extent') is not None:
            kwargs['full_extent'] = tuple(case['full_extent'])
        return xrspatial.generate_terrain(r, seed=case['seed'], zfactor=case['zfactor'], **kwargs)
    raise ValueError(fn)


def run_both(case):
    """-> (numpy result ndarray | exception, dask result ndarray | exception, was_dask_before_compute)"""
    import dask.array as da
    import warnings
    with warnings.catch_warnings():
        warnings.simplefilter('ignore')
        with np.errstate(all='ignore'):
            try:
                rn = np.asarray(call_fn(case, False).data)
            except Exception as e:   # noqa
                rn = e
            isd = None
            try:
                res = call_fn(case, True)
                isd = ('dask', str(res.data.dtype)) if isinstance(res.data, da.Array) else False
                if isd:
                    if case['sched'] == 'synchronous':
                        rd = res.data.compute(scheduler='synchronous')
                    else:
                        rd = res.data.compute(scheduler='threads', num_workers=case['workers'])
                else:
                    rd = np.asarray(res.data)
            except Exception as e:   # noqa
                rd = e
    return rn, rd, isd


def bits_equal(a, b):
    if a.shape != b.shape or a.dtype != b.dtype:
        return False
    if a.dtype.kind == 'f':
        return bool(np.array_equal(a, b, equal_nan=True))
    return bool(np.array_equal(a, b))


def first_diff(a, b):
    if a.shape != b.shape:
        return None
    af = a.astype('float64')
    bf = b.astype('float64')
    bad = ~((af == bf) | (np.isnan(af) & np.isnan(bf)))
    idx = np.argwhere(bad)
    if len(idx) == 0:
        return None
    i = tuple(int(v) for v in idx[0])
    return i, float(af[i]), float(bf[i]), int(bad.sum())


def hotspot_z(case):
    from xrspatial.convolution import convolve_2d
    data = _arr(case['data'], case['dtype']).astype(np.float32)
    k = np.array(case['kernel'], dtype='float64')
    with np.errstate(all='ignore'):
        mean_array = convolve_2d(data, k / k.sum())
        return (mean_array - np.nanmean(data)) / np.nanstd(data)


def oracle(ctx, case, rn, rd, isd):
    """the property text: Dask result == NumPy result (see RULE for the stated tolerances).
    Returns True when a verdict was reached without violation."""
    fn = case['fn']
    what = '%s %dx%d %s chunks=%s sched=%s/%s' % (fn, case['H'], case['W'], case['dtype'], case['chunks'],
                                                  case['sched'], case['workers'])
    if isinstance(rn, Exception):
        ctx.count('outside-domain/numpy-raises/%s/%s' % (fn, type(rn).__name__))
        return None
    if isinstance(rd, Exception):
        key = None
        if fn == 'equal_interval' and isinstance(rd, TypeError) and 'arange' in str(rd):
            key = KEY_EI
        ctx.violation('oracle', '%s: NumPy backend returns a result but the Dask backend raised %s: %s' % (
            what, type(rd).__name__, str(rd)[:160]), dict(case, dask_error=type(rd).__name__), key=key)
        return False
    if not isd:
        ctx.violation('oracle', '%s: result on a Dask-backed raster is not Dask-backed before compute' % what, case)
        return False
    if rn.shape != rd.shape:
        ctx.violation('oracle', '%s: shapes differ: numpy %s dask %s' % (what, rn.shape, rd.shape), case)
        return False
    if isinstance(isd, tuple) and isd[1] != str(rd.dtype) and fn not in ('perlin', 'generate_terrain'):
        # "the result stays Dask-backed until computed": what it advertises while lazy must be what it computes to.
        # Recorded, but the value comparison below still runs and decides the return value.
        ctx.violation('oracle', '%s: the lazy result advertises dtype %s but computes to %s (NumPy backend: %s) — a following '
                      'dtype-dependent step (astype, mean(...), where) then works in the wrong precision' % (
                          what, isd[1], rd.dtype, rn.dtype), dict(case, declared=isd[1], computed=str(rd.dtype)), key=KEY_META)
    if fn in ('perlin', 'generate_terrain'):
        scale = 1.0 if fn == 'perlin' else float(abs(case['zfactor']))
        # the NumPy path stores and normalises in the TEMPLATE dtype (float16 / float32 / float64), the Dask path in
        # float32 / float64: the stated tolerance is 2 ulp of the coarser of the two, at least 2e-6
        # (generate_terrain accumulates 16 noise layers, cubes and normalises in that dtype: 32 ulp)
        tol = max(2e-6, (2 if fn == 'perlin' else 32) * float(np.finfo(np.dtype(case['dtype'])).eps)) * scale
        a = rn.astype('float64')
        b = rd.astype('float64')
        bad = ~((np.abs(a - b) <= tol) | (np.isnan(a) & np.isnan(b)))
        if fn == 'generate_terrain':
            # water threshold: data[data < 0.3] = 0 may flip for a cell within tol of 0.3
            near = (np.abs(np.maximum(a, b) - 0.3 * scale) <= 4 * tol) & (np.minimum(a, b) == 0)
            bad &= ~near
        if bad.any():
            i = tuple(int(v) for v in np.argwhere(bad)[0])
            ctx.violation('oracle', '%s: cell %s numpy %r dask %r differ by more than %g' % (what, i, float(a[i]), float(b[i]), tol),
                          dict(case, cell=list(i), numpy=float(a[i]), dask=float(b[i])))
            return False
        return True
    if rn.dtype != rd.dtype:
        ctx.violation('oracle', '%s: dtypes differ: numpy %s dask %s' % (what, rn.dtype, rd.dtype), case)
        return False
    if bits_equal(rn, rd):
        return True
    d = first_diff(rn, rd)
    if fn == 'hotspots':
        z = hotspot_z(case)
        az = np.abs(z.astype('float64'))
        near = np.zeros(z.shape, dtype=bool)
        # a global float32 mean/std reduced in another order moves z by about eps32 * (|mean|/std + |z|)
        d32 = _arr(case['data'], case['dtype']).astype(np.float32)
        with np.errstate(all='ignore'):
            cond = float(abs(np.nanmean(d32)) / np.nanstd(d32))
        ztol = np.maximum(1e-4, 16 * 2.0 ** -24 * (cond + az)) if np.isfinite(cond) else 1e-4
        for t in (1.65, 1.96, 2.58, 1.29, 2.33):
            near |= np.abs(az - t) <= ztol
        bad = (rn != rd) & ~near
        if not bad.any():
            ctx.count('tolerated/hotspots-threshold')
            return True
        i = tuple(int(v) for v in np.argwhere(bad)[0])
        d = (i, float(rn[i]), float(rd[i]), int(bad.sum()))
    ctx.violation('oracle', '%s: Dask result differs from NumPy result at cell %s: numpy %r dask %r (%d cells differ)' % (
        what, d[0], d[1], d[2], d[3]) if d else '%s: results differ' % what,
        dict(case, cell=list(d[0]) if d else None, numpy=d[1] if d else None, dask=d[2] if d else None))
    return False


# ------------------------------------------------------------------ model correspondence
def tok(v):
    if isinstance(v, float) and math.isnan(v):
        return 'nan'
    return str(int(v))


def grid_tokens(g):
    rows = len(g)
    cols = len(g[0]) if rows else 0
    return '%d %d %s' % (rows, cols, ' '.join(tok(v) for row in g for v in row))


def model_eligible(case):
    fn = case['fn']
    if fn not in ('convolution_2d', 'curvature', 'apply', 'mean', 'hillshade'):
        return False
    vals = [v for row in case['data'] for v in row]
    if any(isinstance(v, float) and (math.isinf(v) or (not math.isnan(v) and v != int(v))) for v in vals):
        return False
    if fn == 'convolution_2d':
        return all(v == int(v) for row in case['kernel'] for v in row)
    if fn == 'curvature':
        return case['cellsize'] == [1.0, 1.0]
    if fn == 'apply':
        return case['func'] in ('_calc_sum', '_calc_max', '_calc_min')
    if fn == 'mean':
        return case['passes'] == 1 and case.get('excludes') is None
    if fn == 'hillshade':
        # sun at the zenith: the shading reduces to (1/sqrt(1+|grad|^2)+1)/2, a function of the model's 4*|grad|^2
        return case['angle_altitude'] == 90
    return False


def model_lines(case):
    """driver lines for the case (1 line, or 2 for mean: sum and count)"""
    fn = case['fn']
    data = case['data']
    if case['dtype'] not in FLT_DT:
        data = [[float(v) for v in row] for row in data]
    cy, cx = case['chunks']
    tail = lambda dy, dx: '%d %d %d %s %d %s' % (dy, dx, len(cy), ' '.join(map(str, cy)), len(cx), ' '.join(map(str, cx)))
    if fn == 'convolution_2d':
        k = case['kernel']
        dy, dx = plan_depth('convolution.py:_convolve_2d_dask_numpy', len(k), len(k[0]))
        return ['conv %s %s %s' % (grid_tokens(k), grid_tokens(data), tail(dy, dx))]
    if fn == 'curvature':
        dy, dx = plan_depth('curvature.py:_run_dask_numpy', 3, 3)
        return ['curv 0 0 %s %s' % (grid_tokens(data), tail(dy, dx))]
    if fn == 'apply':
        k = case['kernel']
        dy, dx = plan_depth('focal.py:_apply_dask_numpy', len(k), len(k[0]))
        op = {'_calc_sum': 'apply0', '_calc_max': 'apply1', '_calc_min': 'apply2'}[case['func']]
        return ['%s %s %s %s' % (op, grid_tokens(k), grid_tokens(data), tail(dy, dx))]
    if fn == 'hillshade':
        dy, dx = plan_depth('hillshade.py:_run_dask_numpy', 3, 3)
        doubled = [[v if (isinstance(v, float) and math.isnan(v)) else 2 * v for v in row] for row in data]
        return ['hill 0 0 %s %s' % (grid_tokens(doubled), tail(dy, dx))]
    if fn == 'mean':
        dy, dx = plan_depth('focal.py:_mean_dask_numpy', 3, 3)
        return ['mean0 0 0 %s %s' % (grid_tokens(data), tail(dy, dx)), 'mean1 0 0 %s %s' % (grid_tokens(data), tail(dy, dx))]
    raise ValueError(fn)


def parse_model(out):
    w, c = out.split('|')
    f = lambda s: [float('nan') if t == 'nan' else int(t) for t in s.split()]
    return f(w), f(c)


def same_val(a, m):
    if isinstance(m, float) and math.isnan(m):
        return math.isnan(a)
    return (not math.isnan(a)) and float(a) == float(m)


def check_model(ctx, pending):
    if ctx.model is None or not pending:
        return
    lines = [l for p in pending for l in p[0]]
    outs = ctx.model.run(lines)
    pos = 0
    for ls, case, rn, rd in pending:
        mo = outs[pos:pos + len(ls)]
        pos += len(ls)
        ctx.traces += 1
        if any(o.startswith('ERR') for o in mo):
            ctx.violation('correspondence', '%s: model returned %s' % (case['fn'], mo[0][:100]), case)
            continue
        if case['fn'] == 'mean':
            (ws, cs_), (wc, cc) = parse_model(mo[0]), parse_model(mo[1])
            # sum / count; an excluded (NaN) centre cell stays NaN: the model's reducers see the NaN cell itself
            def div(s, c):
                out = []
                for a, b in zip(s, c):
                    if isinstance(a, float) or isinstance(b, float) or b == 0:
                        out.append(float('nan'))
                    else:
                        out.append(a / b)
                return out
            whole, chunked = div(ws, wc), div(cs_, cc)
        else:
            whole, chunked = parse_model(mo[0])
        if case['fn'] == 'hillshade':
            # model value G = 4*|gradient|^2 (run on 2*data); hillshade at altitude 90 = (1/sqrt(1+G/4)+1)/2 in float32
            bad = None
            for name, impl, mod in (('NumPy', rn, whole), ('Dask', rd, chunked)):
                flat = [float(v) for v in np.asarray(impl).astype('float64').ravel()]
                for i, (a, m) in enumerate(zip(flat, mod)):
                    e = float('nan') if isinstance(m, float) else (1.0 / math.sqrt(1.0 + m / 4.0) + 1.0) / 2.0
                    if not ((math.isnan(a) and math.isnan(e)) or abs(a - e) <= 3e-6) or len(flat) != len(mod):
                        bad = (name, i, a, e)
                        break
                if bad:
                    break
            if bad:
                ctx.violation('correspondence', 'hillshade: %s backend gives %r, the %s gradient model predicts %r at flat index %d '
                              '(chunks %s)' % (bad[0], bad[2], 'whole-raster' if bad[0] == 'NumPy' else 'chunked', bad[3], bad[1],
                                               case['chunks']), dict(case, flat_index=bad[1], impl=bad[2], model=bad[3], backend=bad[0]))
            continue
        for name, impl, mod in (('NumPy', rn, whole), ('Dask', rd, chunked)):
            flat = [float(v) for v in np.asarray(impl).astype('float64').ravel()]
            if len(flat) != len(mod):
                ctx.violation('correspondence', '%s: model returned %d cells, %s backend %d' % (case['fn'], len(mod), name, len(flat)), case)
                break
            bad = [i for i, (a, m) in enumerate(zip(flat, mod)) if not same_val(a, m)]
            if bad:
                i = bad[0]
                ctx.violation('correspondence', '%s: %s backend gives %r, the %s model %r at flat index %d (chunks %s)' % (
                    case['fn'], name, flat[i], 'whole-raster' if name == 'NumPy' else 'chunked', mod[i], i, case['chunks']),
                    dict(case, flat_index=i, impl=flat[i], model=str(mod[i]), backend=name))
                break


# ------------------------------------------------------------------ coordinate probes (perlin / generate_terrain)
class CoordProbe:
    """replaces the per-cell noise kernel `_perlin(p, x, y)` by the projection on one coordinate, so that the public
    result exposes which ramp feeds which axis (the plan modelled by coord_blocks / coord_whole)"""

    def __init__(self, which):
        self.which = which

    def __enter__(self):
        import importlib
        pm = importlib.import_module('xrspatial.perlin')
        tm = importlib.import_module('xrspatial.terrain')
        self.mods = [pm, tm]
        self.orig = [m._perlin for m in self.mods]
        which = self.which

        def probe(p, x, y):
            return np.asarray(x if which == 'x' else y).astype('float64')
        for m in self.mods:
            m._perlin = probe
        return self

    def __exit__(self, *a):
        for m, o in zip(self.mods, self.orig):
            m._perlin = o


def ramp_numerators(start, stop, n):
    """integer ramp  N_i = A + i*S  with  linspace(start, stop, n, endpoint=False)[i] = N_i / D"""
    from fractions import Fraction
    a = Fraction(start)
    st = (Fraction(stop) - a) / n
    D = a.denominator * st.denominator // math.gcd(a.denominator, st.denominator)
    return int(a * D), int(st * D), D


def probe_expected(case, which, packed):
    """expected public result from the model's packed coordinate raster (x*1000003 + y numerators)"""
    from fractions import Fraction
    fn = case['fn']
    H, W = case['H'], case['W']
    D = case['_D'][0 if which == 'x' else 1]
    vals = [Fraction((v // 1000003) if which == 'x' else (v % 1000003), D) for v in packed]
    if fn == 'generate_terrain':
        vals = [v ** 3 for v in vals]        # 16 layers: sum_i (c*2^i)/2^i = 16 c ; /1.97 ; **3 ; then normalised
    lo, hi = min(vals), max(vals)
    out = []
    for v in vals:
        if hi == lo:
            out.append(float('nan'))
            continue
        t = (v - lo) / (hi - lo)
        if fn == 'generate_terrain':
            if abs(float(t) - 0.3) < 1e-4:
                out.append(None)                # too close to the water threshold to predict
                continue
            t = Fraction(0) if t < Fraction(3, 10) else t * Fraction(case['zfactor'])
        out.append(float(t))
    return out


def scaled_ranges(case):
    from fractions import Fraction
    if case['fn'] == 'perlin':
        return (Fraction(0), Fraction(case['freq'][0])), (Fraction(0), Fraction(case['freq'][1]))
    xr_ = case.get('x_range') or [0, 500]
    yr_ = case.get('y_range') or [0, 500]
    fe = case.get('full_extent') or [xr_[0], yr_[0], xr_[1], yr_[1]]
    sc = lambda v, lo, hi: (Fraction(v) - lo) / (Fraction(hi) - lo)
    return (sc(xr_[0], fe[0], fe[2]), sc(xr_[1], fe[0], fe[2])), (sc(yr_[0], fe[1], fe[3]), sc(yr_[1], fe[1], fe[3]))


def run_probes(ctx, cases):
    """model ramp (whole / blockwise) vs the coordinates the NumPy / Dask backends really feed to the kernel"""
    if ctx.model is None:
        return
    for case in cases:
        (xa, xb), (ya, yb) = scaled_ranges(case)
        ax, stx, Dx = ramp_numerators(xa, xb, case['W'])
        ay, sty, Dy = ramp_numerators(ya, yb, case['H'])
        case['_D'] = [Dx, Dy]
        cy, cx = case['chunks']
        line = 'ramp %d %d %d %d %d %s %d %s' % (ax, stx, ay, sty, len(cy), ' '.join(map(str, cy)), len(cx), ' '.join(map(str, cx)))
        out = ctx.model.run([line])[0]
        pub = {k: v for k, v in case.items() if not k.startswith('_')}
        if out.startswith('ERR'):
            ctx.violation('correspondence', 'ramp model returned %s' % out[:100], pub)
            continue
        whole, blocks = [[int(t) for t in part.split()] for part in out.split('|')]
        tol = 3e-5 * (abs(case['zfactor']) if case['fn'] == 'generate_terrain' else 1.0)
        for which in ('x', 'y'):
            with CoordProbe(which):
                rn, rd, isd = run_both(case)
            ctx.traces += 1
            ctx.count('probe/%s-%s' % (case['fn'], which))
            if isinstance(rn, Exception) or isinstance(rd, Exception):
                ctx.violation('correspondence', '%s coordinate probe raised: numpy %r dask %r' % (case['fn'], rn, rd), pub)
                break
            bad = None
            for name, impl, packed in (('NumPy', rn, whole), ('Dask', rd, blocks)):
                exp = probe_expected(case, which, packed)
                flat = [float(v) for v in np.asarray(impl).astype('float64').ravel()]
                if len(flat) != len(exp):
                    bad = (name, -1, len(flat), len(exp))
                    break
                for i, (a, e) in enumerate(zip(flat, exp)):
                    if e is None:
                        continue
                    if not ((math.isnan(a) and math.isnan(e)) or abs(a - e) <= tol):
                        bad = (name, i, a, e)
                        break
                if bad:
                    break
            if bad:
                ctx.violation('correspondence', '%s: with the kernel replaced by the %s-coordinate, the %s backend gives %r where the '
                              'ramp model (%s) predicts %r at flat index %d — the %s ramp is not linspace(%s, %s, %d) along %s' % (
                                  case['fn'], which, bad[0], bad[2], 'whole linspace' if bad[0] == 'NumPy' else 'blockwise da.linspace',
                                  bad[3], bad[1], which, float(xa if which == 'x' else ya), float(xb if which == 'x' else yb),
                                  case['W'] if which == 'x' else case['H'], 'columns' if which == 'x' else 'rows'),
                              dict(pub, probe=which, backend=bad[0], flat_index=bad[1]))
                break
        case.pop('_D', None)


def probe_cases(rng, quick):
    out = []
    for i in range(2 if quick else 10):
        c = gen_case(rng, 'perlin', rng.randint(2, 9), rng.randint(2, 9))
        c['dtype'] = 'float64'
        out.append(c)
    for i in range(1 if quick else 6):
        c = gen_case(rng, 'generate_terrain', rng.randint(2, 7), rng.randint(2, 7))
        c['dtype'] = 'float64'
        terrain_params(rng, c, asym=True)
        out.append(c)
    return out


# ------------------------------------------------------------------ global scalars derived in the raster's precision
def _grid_vals(dt, step, lo, n):
    """n values lo*step, (lo+1)*step, ... rounded to dtype dt, as Python floats (exactly representable in dt)"""
    t = np.dtype(dt).type
    return [float(t((lo + i) * step)) for i in range(n)]


def gen_threshold_case(rng, fn):
    """rasters whose values sit exactly at / one ulp around the thresholds the NumPy path derives from global scalars
    (min, max, cut points, cell size, coordinate ranges) in the raster's own precision: decimal grids (multiples of 0.1,
    0.01, ...) in float32 / float16.  A wrapper that derives such a scalar in another precision flips a class."""
    if fn == 'equal_interval':
        dt = 'float32' if rng.random() < 0.8 else 'float16'
        k = rng.randint(2, 10)
        step = rng.choice([0.1, 0.1, 0.01, 0.05, 0.3, 0.7])
        lo = rng.choice([0, 0, 1, 3, -4])
        m = k * rng.randint(1, 3) + 1                     # max - min is a multiple of k*step: the cuts fall on the grid
        grid = _grid_vals(dt, step, lo, m)
        t = np.dtype(dt).type
        mn, mx = t(min(grid)), t(max(grid))
        with np.errstate(all='ignore'):
            width = (mx - mn) * 1.0 / k                   # as _run_equal_interval computes it, in the raster dtype
            cuts = np.arange(mn + width, mx + width, width)[:k] if width > 0 else np.array([], dtype=dt)
        extra = []
        for c in cuts[:-1]:
            for v in (c, np.nextafter(c, t(np.inf)), np.nextafter(c, t(-np.inf))):
                if mn <= v <= mx:
                    extra.append(float(v))
        vals = grid + extra
        rng.shuffle(vals)
        W = rng.randint(2, 7)
        H = -(-len(vals) // W)
        vals = vals + [rng.choice(grid) for _ in range(H * W - len(vals))]
        c = gen_case(rng, fn, H, W)
        c['dtype'] = dt
        c['k'] = k
        c['data'] = [vals[r * W:(r + 1) * W] for r in range(H)]
        if rng.random() < 0.3:
            c['data'][rng.randrange(H)][rng.randrange(W)] = float('nan')
        c['chunks'] = gen_chunks(rng, H, W, c['style'])
        c['kind'] = 'decimal-grid'
        return c
    H, W = rng.randint(3, 8), rng.randint(3, 8)
    c = gen_case(rng, fn, H, W)
    c['kind'] = 'decimal-grid'
    if fn in ('perlin', 'generate_terrain'):
        c['dtype'] = 'float32'
        if fn == 'perlin':
            c['freq'] = [rng.choice([0.1, 0.3, 2.5, 1]), rng.choice([0.7, 0.01, 3, 1.1])]
        else:
            terrain_params(rng, c, asym=True)
            xr_, yr_, fe = rng.choice([((0.1, 0.3), (0.2, 0.9), (0.0, 0.0, 1.0, 0.7 + 0.3)),
                                       ((0.1, 0.4), (0.35, 0.7), (0.0, 0.1, 0.9, 0.8)),
                                       ((10.1, 10.3), (0.0, 0.01), (10.0, 0.0, 10.7, 0.03))])
            c['x_range'], c['y_range'], c['full_extent'] = list(xr_), list(yr_), list(fe)
        return c
    dt = 'float32' if rng.random() < 0.8 else 'float16'
    c['dtype'] = dt
    step = rng.choice([0.1, 0.01, 0.3])
    g = _grid_vals(dt, step, rng.choice([0, 2, -3]), 40)
    for key in ('data', 'data2', 'data3'):
        if key in c:
            c[key] = [[rng.choice(g) for _ in range(W)] for _ in range(H)]
    c['cellsize'] = list(rng.choice([(0.1, 0.1), (0.1, 0.3), (0.01, 0.07), (0.3, 0.1)]))     # decimal cell sizes
    c['res_attr'] = rng.random() < 0.5
    if 'kernel' in c:
        c['kernel'] = gen_kernel(rng, H, W, binary=(fn != 'convolution_2d'), force=(3, 3))
    c['chunks'] = gen_chunks(rng, H, W, c['style'])
    for ck in ('chunks2', 'chunks3'):
        if ck in c:
            c[ck] = gen_chunks(rng, H, W, 'random')
    return c


def threshold_stream(ctx, rng, quick):
    plan = [('equal_interval', 10 if quick else 150), ('slope', 1 if quick else 10), ('curvature', 1 if quick else 10),
            ('hillshade', 1 if quick else 10), ('aspect', 0 if quick else 10), ('true_color', 1 if quick else 20),
            ('hotspots', 1 if quick else 10), ('perlin', 0 if quick else 10), ('generate_terrain', 0 if quick else 6)]
    for fn, n in plan:
        for _ in range(n):
            c = gen_threshold_case(rng, fn)
            ctx.count('stream/decimal-grid/%s/%s' % (fn, c['dtype']))
            explore(ctx, c, None)


# ------------------------------------------------------------------ theme audit stream (appended after all others)
SINGLE_FNS = SURFACE + ['mean'] + KERNELLED + ['binary', 'reclassify', 'equal_interval']


def _snapshot(bands):
    out = {}
    for k, b in bands.items():
        out[k] = (np.asarray(b.data).copy(), {c: np.asarray(v.values).copy() for c, v in b.coords.items()}, dict(b.attrs),
                  str(b.dtype), tuple(b.dims))
    return out


def _unchanged(snap, bands):
    for k, b in bands.items():
        d0, c0, a0, dt0, dims0 = snap[k]
        d1 = np.asarray(b.data)
        if str(b.dtype) != dt0 or tuple(b.dims) != dims0 or d1.shape != d0.shape or \
                not np.array_equal(d0, d1, equal_nan=(d0.dtype.kind == 'f')):
            return '%s: values/dtype/dims of the input changed' % k
        if set(b.coords) != set(c0) or any(not np.array_equal(c0[c], np.asarray(b.coords[c].values)) for c in c0):
            return '%s: coordinates of the input changed' % k
        if dict(b.attrs) != a0:
            return '%s: attrs of the input changed (%r -> %r)' % (k, a0, dict(b.attrs))
    return None


def _derive(b, how):
    """a raster derived from an already-processed one"""
    dy, dx = b.dims
    if how == 'slice':
        return b.isel({dy: slice(1, None), dx: slice(0, -1)})
    if how == 'step':
        return b.isel({dy: slice(None, None, 2), dx: slice(None, None, 2)})     # attrs['res'] goes stale on purpose
    if how == 'copy':
        return b.copy(deep=True)
    if how == 'astype':
        return b.astype('float32')
    if how == 'assign':
        if dx in b.coords:
            return b.assign_coords({dx: b.coords[dx].values + 1000.0})
        return b.copy()
    if how == 'attrs':
        c = b.copy()
        c.attrs = dict(b.attrs, note='derived', res=b.attrs.get('res', (1.0, 1.0)))
        return c
    return b


def run_sequence(case):
    """call sequences on ONE set of rasters per backend.  -> list of (label, numpy result|exc, dask result|exc, isd),
    and a message if an input was modified"""
    import dask
    import dask.array as da
    import warnings
    seq = case['seq']
    res = []
    msg = None
    comp = (lambda x: x.compute(scheduler='synchronous')) if case['sched'] == 'synchronous' else \
        (lambda x: x.compute(scheduler='threads', num_workers=case['workers']))

    def guard(f):
        try:
            return f()
        except Exception as e:   # noqa
            return e

    def fin(l):
        if isinstance(l, Exception):
            return l, None
        if isinstance(l.data, da.Array):
            return guard(lambda: comp(l.data)), ('dask', str(l.data.dtype))
        return np.asarray(l.data), False
    with warnings.catch_warnings():
        warnings.simplefilter('ignore')
        with np.errstate(all='ignore'):
            nb_ = make_bands(case, False)
            db_ = make_bands(case, True)
            snap_n, snap_d = _snapshot(nb_), _snapshot({k: v.compute() for k, v in db_.items()})
            other = dict(case, **case.get('other', {}))
            if seq == 'repeat':
                rn1 = guard(lambda: np.asarray(call_fn(case, False, nb_).data))
                rn2 = guard(lambda: np.asarray(call_fn(case, False, nb_).data))
                l1 = guard(lambda: call_fn(case, True, db_))
                l2 = guard(lambda: call_fn(case, True, db_))
                d2, i2 = fin(l2)
                d1, i1 = fin(l1)
                res = [('first call', rn1, d1, i1), ('second identical call', rn2, d2, i2)]
            elif seq == 'deferred':
                rn = guard(lambda: np.asarray(call_fn(case, False, nb_).data))
                l = guard(lambda: call_fn(case, True, db_))
                # other library calls on the same rasters, computed BEFORE the first lazy result
                o1 = guard(lambda: call_fn(other, True, db_))
                fin(o1)
                pre = dict(case, fn=case.get('pre', 'mean'), passes=1, excludes=None)
                if 'data2' not in case and case['fn'] not in ('perlin', 'generate_terrain'):
                    fin(guard(lambda: call_fn(pre, True, db_)))
                guard(lambda: np.asarray(call_fn(other, False, nb_).data))
                d, i = fin(l)
                rno = guard(lambda: np.asarray(call_fn(other, False, make_bands(case, False)).data))
                do, io = fin(guard(lambda: call_fn(other, True, db_)))
                res = [('lazy result computed after other calls', rn, d, i), ('interleaved other parameters', rno, do, io)]
            elif seq == 'chain':
                pre = dict(case, fn=case['pre'], passes=1, excludes=None)
                rn = guard(lambda: np.asarray(call_fn(case, False, {'data': call_fn(pre, False, nb_)}).data))
                l = guard(lambda: call_fn(case, True, {'data': call_fn(pre, True, db_)}))
                d, i = fin(l)
                res = [('%s of the lazy %s result' % (case['fn'], case['pre']), rn, d, i)]
                pl = guard(lambda: call_fn(pre, True, db_).data)
                if not isinstance(pl, Exception):
                    pc = guard(lambda: comp(pl))
                    if not isinstance(pc, Exception) and str(pl.dtype) != str(pc.dtype):
                        case['_pre_meta_wrong'] = '%s advertises %s, computes %s' % (case['pre'], pl.dtype, pc.dtype)
            else:   # derived:<how>
                how = seq.split(':', 1)[1]
                guard(lambda: np.asarray(call_fn(case, False, nb_).data))          # process the originals first
                fin(guard(lambda: call_fn(case, True, db_)))
                rn = guard(lambda: np.asarray(call_fn(case, False, {k: _derive(v, how) for k, v in nb_.items()}).data))
                l = guard(lambda: call_fn(case, True, {k: _derive(v, how) for k, v in db_.items()}))
                d, i = fin(l)
                res = [('call on the %s-derived raster' % how, rn, d, i)]
            msg = _unchanged(snap_n, nb_)
            if msg is None and case['fn'] not in SPECTRAL2 + SPECTRAL3 + ['true_color']:
                # (validate_arrays re-chunks the other bands of a multi-band call in place: chunk layout only, C10)
                msg = _unchanged(snap_d, {k: v.compute() for k, v in db_.items()})
            elif msg is None:
                msg = _unchanged(snap_d, {k: v.compute() for k, v in db_.items()})
    return res, msg


def explore_sequence(ctx, case):
    ctx.case(case, nontrivial=True)
    ctx.count('theme/seq/%s/%s' % (case['seq'].split(':')[0], case['fn']))
    res, msg = run_sequence(case)
    for label, rn, rd, isd in res:
        n0 = len(ctx.violations)
        oracle(ctx, dict({k: v for k, v in case.items()}, H=(rn.shape[0] if hasattr(rn, 'shape') and rn.ndim >= 2 else case['H']),
                         W=(rn.shape[1] if hasattr(rn, 'shape') and rn.ndim >= 2 else case['W'])), rn, rd, isd)
        for v in ctx.violations[n0:]:
            v['what'] = '[sequence %s: %s] %s' % (case['seq'], label, v['what'])
            v['replay'] = {k: x for k, x in case.items() if not k.startswith('_')}
            if v['key'] is None and case.get('_pre_meta_wrong'):
                # the intermediate lazy raster lies about its dtype (that defect class): the second step runs in it
                v['key'] = KEY_META
                v['what'] += ' [intermediate: %s]' % case['_pre_meta_wrong']
    case.pop('_pre_meta_wrong', None)
    if msg:
        ctx.violation('oracle', '%s: after the call sequence %s an input raster is no longer what was passed in: %s' % (
            case['fn'], case['seq'], msg), dict(case))


EXTREME = {
    'f32gap': [2.0 ** 24 + 1, 2.0 ** 24 + 3, 0.1, 0.2, 0.30000000000000004, 1 + 1e-9, 1 - 1e-9, 16777217.0],
    'tiny': [2.0 ** -30, 2.0 ** -60, 2.0 ** -120, -2.0 ** -100, 3 * 2.0 ** -126, 0.0],
    'huge': [1e30, -1e30, 3e38, 1e300, -1e300, 1e20],
}


def gen_theme_case(rng, theme, fn=None):
    """one case of the audit stream; `theme` selects what is unusual about it"""
    if theme == 'extreme':
        fn = fn or rng.choice(SINGLE_FNS + SPECTRAL2 + ['arvi', 'true_color'])
        c = gen_case(rng, fn, rng.randint(3, 7), rng.randint(3, 7))
        kind = rng.choice(['f32gap', 'tiny', 'huge', 'intbig', 'limits'])
        H, W = c['H'], c['W']
        if kind in ('intbig', 'limits'):
            dt = rng.choice(['int8', 'uint8', 'int16', 'int32', 'uint32', 'int64', 'uint64'])
            info = np.iinfo(dt)
            if kind == 'limits':
                pool = [int(info.max), int(info.max) - 1, int(info.min), int(info.min) + 1, 0, 1]
            else:
                pool = [v for v in (2 ** 24 + 1, 2 ** 31 + 5, 2 ** 31 - 1, 2 ** 53 + 1, 2 ** 62 + 3, -(2 ** 31) - 7, 100, 0)
                        if info.min <= v <= info.max]
            c['dtype'] = dt
            for key in ('data', 'data2', 'data3'):
                if key in c:
                    c[key] = [[rng.choice(pool) for _ in range(W)] for _ in range(H)]
        else:
            dt = rng.choice(['float64', 'float32']) if kind != 'huge' else rng.choice(['float64', 'float32', 'float64'])
            c['dtype'] = dt
            pool = [v for v in EXTREME[kind] if dt == 'float64' or abs(v) < 3.4e38]
            for key in ('data', 'data2', 'data3'):
                if key in c:
                    c[key] = [[float(np.dtype(dt).type(rng.choice(pool))) for _ in range(W)] for _ in range(H)]
        c['kind'] = 'extreme-' + kind
        # thresholds equal to, and one ulp around, cell values in the cell's own dtype
        cells = [v for row in c['data'] for v in row]
        if fn in ('binary', 'reclassify', 'mean') and c['dtype'] in FLT_DT:
            t = np.dtype(c['dtype']).type
            v0 = t(rng.choice(cells))
            around = sorted({float(v0), float(np.nextafter(v0, t(np.inf))), float(np.nextafter(v0, t(-np.inf)))})
            if fn == 'binary':
                c['values'] = around[:2] + [float(rng.choice(cells))]
            elif fn == 'reclassify':
                c['bins'] = around
                c['new_values'] = [1.0, 2.0, 3.0][:len(around)]
            else:
                c['excludes'] = [around[0], float(v0)]
        elif fn in ('binary', 'reclassify'):
            srt = sorted(set(float(v) for v in cells))
            if fn == 'binary':
                c['values'] = srt[:2]
            else:
                c['bins'] = srt[:4]
                c['new_values'] = [float(i) for i in range(len(c['bins']))]
        return c
    if theme == 'params':
        fn = fn or rng.choice(['binary', 'reclassify', 'focal_stats', 'convolution_2d', 'apply', 'hotspots', 'mean',
                               'generate_terrain', 'perlin', 'equal_interval', 'hillshade', 'true_color'])
        c = gen_case(rng, fn, rng.randint(3, 8), rng.randint(3, 8))
        c['kind'] = 'params'
        c['param_as'] = rng.choice(['pyint', 'tuple', 'int32', 'int64', 'uint8', 'float32', 'float64'])
        if fn == 'binary':
            # unsorted, duplicates, absent entries, gaps below / inside / above the data range
            c['values'] = [float(v) for v in rng.sample([4, 1, 1, 3, 99, -7, 2, 2, 0], rng.randint(1, 6))]
        elif fn == 'reclassify':
            c['bins'] = [float(v) for v in rng.choice([[10, 0, 5], [5, 5, 5], [0, 5, 5, 10], [-100, 100], [3], [20, 10, 0, -5]])]
            c['new_values'] = [float(rng.randint(0, 9)) for _ in c['bins']]
        elif fn == 'focal_stats':
            c['stats'] = rng.choice([['sum', 'sum'], ['var', 'std', 'range', 'min', 'max', 'mean', 'sum'], ['max', 'min', 'max'],
                                     ['range']])
        elif fn in ('convolution_2d', 'apply', 'hotspots'):
            c['kernel_dtype'] = rng.choice(['int64', 'float32', 'int32', 'uint8'])
            if fn == 'convolution_2d':
                c['kernel'] = [[float(rng.randint(0, 3)) for _ in row] for row in c['kernel']]
        elif fn == 'mean':
            c['passes'] = rng.choice([0, 0, 1])
            c['excludes'] = rng.choice([[0.0], [0.0, 0.0], None])
        elif fn == 'generate_terrain':
            terrain_params(rng, c)
            c['seed'] = 0
            c['zfactor'] = rng.choice([0, 1, -3, 4000.5])
        elif fn == 'perlin':
            c['seed'] = 0
            c['freq'] = rng.choice([[1, 1], [0.5, 3], [5, 1]])
        elif fn == 'equal_interval':
            c['k'] = rng.choice([1, 2, 64, 100])
        elif fn == 'hillshade':
            c['azimuth'] = rng.choice([0, 360, 0.0, 720, -45])
            c['angle_altitude'] = rng.choice([0, 0.0, 90, 120])
        elif fn == 'true_color':
            c['nodata'] = rng.choice([0, 0.0, -1])
            c['c'] = rng.choice([0, 0.0, 10.0])
            c['th'] = rng.choice([0, 0.0, 0.125])
        return c
    if theme == 'bigkernel':
        fn = fn or rng.choice(KERNELLED)
        H, W = rng.randint(16, 24), rng.randint(18, 30)
        c = gen_case(rng, fn, H, W, style=rng.choice(['small', 'random', 'rowstrip', 'colstrip']))
        kr, kc = rng.choice([(9, 15), (13, 13), (15, 9), (11, 17), (5, 17)])       # 100..220 cells
        c['kernel'] = gen_kernel(rng, H, W, binary=(fn != 'convolution_2d'), force=(kr, kc))
        c['chunks'] = [composition(rng, H, rng.choice([2, 3, kr // 2, H])), composition(rng, W, rng.choice([2, 3, kc // 2, W]))]
        if fn == 'apply':
            c['func'] = rng.choice(['_calc_mean', '_calc_sum', '_calc_max'])
        if fn == 'focal_stats':
            c['stats'] = ['mean']
        c['kind'] = 'bigkernel'
        return c
    if theme == 'coords':
        fn = fn or rng.choice(SURFACE + ['true_color', 'generate_terrain', 'mean', 'convolution_2d'])
        c = gen_case(rng, fn, rng.randint(2, 8), rng.randint(2, 8))
        c['layout'] = rng.choice([l for l in LAYOUTS if l['coords'] and (fn != 'true_color' or l['dims'] == ['y', 'x'])])
        c['res_attr'] = False
        c['cellsize'] = list(rng.choice([(1e6, 1e6), (1e6, 0.5), (0.001, 0.003), (30.0, 30.0), (1.0 / 3600, 1.0 / 3600)]))
        c['coord'] = dict(ox=rng.choice([0.0, -180.0, 5e5, -1e7, 179.5]), oy=rng.choice([0.0, -90.0, 4e6, -33.3, 89.0]),
                          desc_x=rng.random() < 0.3)
        c['kind'] = 'coords'
        return c
    if theme == 'degenerate':
        fn = fn or rng.choice(ALL_FNS[:-2])
        H, W = rng.choice([(1, 1), (1, 6), (6, 1), (2, 2), (3, 3), (4, 5)])
        c = gen_case(rng, fn, H, W)
        if c['dtype'] not in FLT_DT:
            c['dtype'] = 'float64'
        how = rng.choice(['allnan', 'allequal', 'single', 'allinf'])
        for key in ('data', 'data2', 'data3'):
            if key in c:
                if how == 'allnan':
                    c[key] = [[float('nan')] * W for _ in range(H)]
                elif how == 'allequal':
                    c[key] = [[7.0] * W for _ in range(H)]
                elif how == 'allinf':
                    c[key] = [[float('inf')] * W for _ in range(H)]
                else:
                    c[key] = [[float('nan')] * W for _ in range(H)]
                    c[key][rng.randrange(H)][rng.randrange(W)] = 5.0
        if 'kernel' in c:
            c['kernel'] = gen_kernel(rng, H, W, binary=(fn != 'convolution_2d'))
        c['chunks'] = gen_chunks(rng, H, W, c['style'])
        for ck in ('chunks2', 'chunks3'):
            if ck in c:
                c[ck] = gen_chunks(rng, H, W, 'random')
        c['kind'] = 'degenerate-' + how
        return c
    if theme == 'memlayout':
        fn = fn or rng.choice(SINGLE_FNS + SPECTRAL3 + SPECTRAL2 + ['true_color'])
        c = gen_case(rng, fn, rng.randint(2, 8), rng.randint(2, 8))
        keys = [k for k in ('data', 'data2', 'data3') if k in c]
        # vary the layout of EACH argument separately
        c['memlayout'] = {rng.choice(keys): rng.choice(['F', 'T', 'strided', 'reversed', 'ro'])}
        if rng.random() < 0.3:
            c['memlayout'] = {k: rng.choice(['F', 'T', 'strided', 'reversed', 'ro']) for k in keys}
        c['kind'] = 'memlayout'
        return c
    if theme == 'argchunks':
        # per-argument DIFFERENT chunkings: each argument position in turn, same per-axis maximum, different splits
        fn = fn or rng.choice(SPECTRAL3 + SPECTRAL2 + ['true_color'])
        H, W = rng.randint(4, 10), rng.randint(4, 10)
        c = gen_case(rng, fn, H, W)
        m = rng.randint(2, 3)
        base = [composition(rng, H, m), composition(rng, W, m)]
        keys = [k for k in ('chunks', 'chunks2', 'chunks3') if k in c or k == 'chunks']
        keys = [k for k in keys if k == 'chunks' or k.replace('chunks', 'data') in c]
        for k in keys:
            c[k] = [list(base[0]), list(base[1])]
        odd = rng.choice(keys)
        c[odd] = [composition(rng, H, m), composition(rng, W, m)]
        c['kind'] = 'argchunks-' + odd
        return c
    raise ValueError(theme)


def gen_sequence_case(rng, seq=None, fn=None):
    seq = seq or rng.choice(['repeat', 'deferred', 'chain', 'derived:slice', 'derived:step', 'derived:copy', 'derived:astype',
                             'derived:assign', 'derived:attrs'])
    if seq == 'chain':
        fn = fn or rng.choice(['slope', 'aspect', 'curvature', 'hillshade', 'mean', 'convolution_2d', 'apply', 'binary',
                               'equal_interval', 'hotspots'])
    elif seq.startswith('derived'):
        fn = fn or rng.choice(SINGLE_FNS + ['ndvi', 'arvi', 'true_color'])
    else:
        fn = fn or rng.choice([f for f in ALL_FNS if f != 'generate_terrain'])
    c = gen_case(rng, fn, rng.randint(4, 9), rng.randint(4, 9))
    if 'kernel' in c:
        c['kernel'] = gen_kernel(rng, 3, 3, binary=(fn != 'convolution_2d'))       # still fits the sliced raster
        c['chunks'] = gen_chunks(rng, c['H'], c['W'], c['style'], (1, 1))
    c['seq'] = seq
    if seq == 'chain':
        c['pre'] = rng.choice(['mean', 'slope', 'curvature', 'aspect'])
    if seq == 'deferred':
        c['pre'] = rng.choice(['mean', 'slope', 'binary'])
        if fn == 'binary':
            c['values'] = [1.0, 2.0]
        v = gen_variants(rng, c) if fn in PARAM_FNS else [{}, {}]
        c['other'] = v[1]
    if seq == 'derived:astype' and c['dtype'] == 'float16':
        c['dtype'] = 'float64'
    return c


def theme_stream(ctx, rng, quick):
    plan = [('extreme', 8, 80), ('params', 8, 80), ('bigkernel', 1, 12), ('coords', 4, 40), ('degenerate', 5, 60),
            ('memlayout', 4, 40), ('argchunks', 3, 30)]
    for theme, nq, nt in plan:
        for _ in range(nq if quick else nt):
            c = gen_theme_case(rng, theme)
            ctx.count('theme/%s' % c['kind'].split('-')[0])
            explore(ctx, c, None)
    for _ in range(9 if quick else 90):
        explore_sequence(ctx, gen_sequence_case(rng))


# ------------------------------------------------------------------ several lazy results computed together
PARAM_FNS = ['reclassify', 'binary', 'equal_interval', 'hillshade', 'mean', 'convolution_2d', 'apply', 'focal_stats',
             'hotspots', 'savi', 'true_color', 'perlin', 'generate_terrain']


def gen_variants(rng, case):
    """2-3 parameter settings for the SAME rasters/chunking (first one = the case's own parameters)"""
    fn = case['fn']
    H, W = case['H'], case['W']
    n = rng.randint(2, 3)
    out = [{}]
    for i in range(n - 1):
        v = {}
        if fn == 'reclassify':
            # same bins, different new_values (and sometimes different bins too)
            v['new_values'] = [float(x) * rng.choice([10, 100]) + rng.randint(1, 9) for x in case['new_values']]
            if rng.random() < 0.3:
                v['bins'] = [b + 1.0 for b in case['bins']]
        elif fn == 'binary':
            v['values'] = [float(rng.randint(0, 4)) for _ in range(rng.randint(1, 3))]
        elif fn == 'equal_interval':
            v['k'] = case['k'] + i + 1
        elif fn == 'hillshade':
            v['azimuth'] = case['azimuth'] + 40 * (i + 1)
            v['angle_altitude'] = rng.choice([10, 25, 60])
        elif fn == 'mean':
            v['passes'] = case['passes'] + i + 1
        elif fn in ('convolution_2d', 'hotspots'):
            k = case['kernel']
            v['kernel'] = gen_kernel(rng, H, W, binary=(fn != 'convolution_2d'), force=(len(k), len(k[0])))
        elif fn == 'apply':
            v['func'] = rng.choice([f for f in APPLY_FUNCS if f != case['func']])
        elif fn == 'focal_stats':
            v['stats'] = rng.sample(STATS, rng.randint(1, 2))
        elif fn == 'savi':
            v['soil_factor'] = case['soil_factor'] + 0.25 * (i + 1)
        elif fn == 'true_color':
            v['c'] = case['c'] + 1.0 + i
            v['th'] = rng.choice([0.125, 0.25, 0.5])
        elif fn == 'perlin':
            v['seed'] = case['seed'] + 1 + i
            if rng.random() < 0.5:
                v['freq'] = [case['freq'][1] + 1, case['freq'][0]]
        elif fn == 'generate_terrain':
            v['seed'] = case['seed'] + 1 + i if rng.random() < 0.5 else case['seed']
            v['zfactor'] = case['zfactor'] * 2
        out.append(v)
    return out


def run_together(case):
    """the variants of the case: NumPy results one by one; Dask: all lazy results built on the SAME Dask rasters and
    computed in ONE dask.compute call.  -> list of (variant case, numpy result|exc, dask result|exc, isd)"""
    import dask
    import dask.array as da
    import warnings
    variants = [dict({k: v for k, v in case.items() if k != 'variants'}, **v) for v in case['variants']]
    res = []
    with warnings.catch_warnings():
        warnings.simplefilter('ignore')
        with np.errstate(all='ignore'):
            rns = []
            for vc in variants:
                try:
                    rns.append(np.asarray(call_fn(vc, False).data))
                except Exception as e:   # noqa
                    rns.append(e)
            bands = make_bands(case, True)
            kw_ = dict(scheduler='synchronous') if case['sched'] == 'synchronous' else \
                dict(scheduler='threads', num_workers=case['workers'])
            lazies = []
            alone = {}
            for i, vc in enumerate(variants):
                # a variant that replaces a band gets its own Dask rasters (same shape and chunks), the others share
                vb = make_bands(vc, True) if any(k in case['variants'][i] for k in ('data', 'data2', 'data3')) else bands
                try:
                    lazies.append(call_fn(vc, True, bands=vb).data)
                except Exception as e:   # noqa
                    lazies.append(e)
                if isinstance(rns[i], Exception) and isinstance(lazies[i], da.Array):
                    # rejected by the NumPy backend: computed ALONE (it must not poison the joint compute of the valid
                    # variants); a consistent rejection is not a violation, and there is no reference result either way
                    try:
                        alone[i] = lazies[i].compute(**kw_)
                    except Exception as e:   # noqa
                        alone[i] = e
            idx = [i for i, l in enumerate(lazies) if isinstance(l, da.Array) and i not in alone]
            computed = dict(alone)
            try:
                outs = dask.compute(*[lazies[i] for i in idx], **kw_)
                for i, o in zip(idx, outs):
                    computed[i] = o
            except Exception as e:   # noqa
                for i in idx:
                    computed[i] = e
            for i, vc in enumerate(variants):
                l = lazies[i]
                if isinstance(l, Exception):
                    res.append((vc, rns[i], l, None))
                elif i in computed:
                    res.append((vc, rns[i], computed[i], ('dask', str(l.dtype))))
                else:
                    res.append((vc, rns[i], np.asarray(l), False))
    return res


def explore_together(ctx, case):
    ctx.case(case, nontrivial=True)
    ctx.count('together/%s' % case['fn'])
    ok = True
    for i, (vc, rn, rd, isd) in enumerate(run_together(case)):
        n0 = len(ctx.violations)
        if isinstance(rn, Exception):
            ctx.count('together/rejected-by-numpy/%s' % ('same-on-dask' if isinstance(rd, Exception) and
                                                         type(rd).__name__ == type(rn).__name__ else
                                                         'dask-%s' % (type(rd).__name__ if isinstance(rd, Exception) else 'accepts')))
        r = oracle(ctx, vc, rn, rd, isd)
        for v in ctx.violations[n0:]:
            # the replay must rebuild the whole group, not the single variant
            v['what'] = '[variant %d of %d lazy results on the same Dask raster computed in one dask.compute] %s' % (
                i + 1, len(case['variants']), v['what'])
            v['replay'] = dict(case, failing_variant=i)
        ok = ok and bool(r is not False)
    return ok


def gen_together(rng, fn):
    if fn == 'generate_terrain':
        c = gen_case(rng, fn, rng.randint(2, 6), rng.randint(2, 6))
    else:
        c = gen_case(rng, fn, rng.randint(2, 9), rng.randint(2, 9))
    c['variants'] = gen_variants(rng, c)
    return c


# ------------------------------------------------------------------ systematic "computed together" variants
def single_param_variants(rng, case):
    """every variant differs from the case in EXACTLY ONE parameter (or one band of the data, same shape and chunks)"""
    fn = case['fn']
    H, W = case['H'], case['W']
    out = []

    def newdata(key):
        kind = 'spectral' if fn in SPECTRAL2 + SPECTRAL3 + ['true_color'] and case['dtype'] not in ('int8', 'uint8') else \
            'tiny' if fn == 'binary' else 'small'
        return {key: gen_data(rng, H, W, case['dtype'], kind)}
    if fn == 'reclassify':
        out += [dict(new_values=[v * 100 + 7 for v in case['new_values']]), dict(bins=[b + 1.0 for b in case['bins']])]
    elif fn == 'binary':
        out += [dict(values=[float(rng.randint(0, 4)) for _ in range(rng.randint(1, 3))])]
    elif fn == 'equal_interval':
        out += [dict(k=case['k'] + 1)]
    elif fn == 'hillshade':
        out += [dict(azimuth=case['azimuth'] + 45), dict(angle_altitude=(case['angle_altitude'] + 20) % 90)]
    elif fn == 'mean':
        out += [dict(passes=case['passes'] + 1), dict(excludes=[float(rng.randint(-5, 20))])]
    elif fn in KERNELLED:
        k = case['kernel']
        out += [dict(kernel=gen_kernel(rng, H, W, binary=(fn != 'convolution_2d'), force=(len(k), len(k[0]))))]
        if fn == 'apply':
            out += [dict(func=rng.choice([f for f in APPLY_FUNCS if f != case['func']]))]
        if fn == 'focal_stats':
            out += [dict(stats=[rng.choice([x for x in STATS if x not in case['stats']] or STATS)])]
    elif fn == 'savi':
        out += [dict(soil_factor=-case['soil_factor'] if case['soil_factor'] else 0.5)]
    elif fn == 'evi':
        base = dict(dict(c1=6.0, c2=7.5, soil_factor=1.0, gain=2.5), **(case.get('evi_params') or {}))
        out += [dict(evi_params=dict(base, gain=base['gain'] + 1.0)), dict(evi_params=dict(base, c1=base['c1'] + 1.0))]
    elif fn == 'true_color':
        out += [dict(nodata=case['nodata'] + 2), dict(c=case['c'] + 3.0), dict(th=0.25 if case['th'] != 0.25 else 0.5)]
    elif fn == 'perlin':
        out += [dict(seed=case['seed'] + 1), dict(freq=[case['freq'][0] + 1, case['freq'][1]])]
    elif fn == 'generate_terrain':
        fe = case.get('full_extent') or [0, 0, 500, 500]
        xr_ = case.get('x_range') or [0, 500]
        yr_ = case.get('y_range') or [0, 500]
        wx = xr_[1] - xr_[0]
        # the neighbouring tile of the same full extent: same seed, same shape, other x_range
        out += [dict(x_range=[xr_[0] + wx / 2.0, xr_[1] + wx / 2.0], y_range=list(yr_), full_extent=list(fe)),
                dict(seed=case['seed'] + 1), dict(zfactor=case['zfactor'] * 2 + 1)]
    if fn not in ('perlin', 'generate_terrain'):
        for key in ('data', 'data2', 'data3'):
            if key in case:
                out.append(newdata(key))
    return out


def gen_together_systematic(rng, fn, nvar=2):
    if fn == 'generate_terrain':
        c = gen_case(rng, fn, rng.randint(2, 4), rng.randint(2, 4))
        c['x_range'], c['y_range'], c['full_extent'] = [0, 250], [0, 250], [0, 0, 500, 500]
        c['seed'] = rng.choice([0, 3, 10])
        c['dtype'] = 'float32'
    else:
        c = gen_case(rng, fn, rng.randint(3, 8), rng.randint(3, 8))
        if c['dtype'] == 'float16':
            c['dtype'] = 'float32'
    allv = single_param_variants(rng, c)
    if fn == 'generate_terrain':
        pick = allv[:1] + (rng.sample(allv[1:], nvar - 1) if nvar > 1 else [])       # the tile pair always
    else:
        pick = rng.sample(allv, min(nvar, len(allv)))
    c['variants'] = [{}] + pick
    c['kind'] = 'together-1param'
    return c


def together_systematic_stream(ctx, rng, quick):
    if quick:
        plan = [('generate_terrain', 1), ('perlin', 1)] + [(fn, 2) for fn in rng.sample(
            ['reclassify', 'binary', 'equal_interval', 'hillshade', 'mean', 'convolution_2d', 'hotspots', 'apply', 'focal_stats',
             'savi', 'evi', 'true_color', 'ndvi', 'arvi', 'slope'], 4)]
    else:
        plan = [('generate_terrain', 3)] * 3 + [(fn, 3) for fn in ALL_FNS if fn != 'generate_terrain'] * 4
    for fn, nvar in plan:
        c = gen_together_systematic(rng, fn, nvar)
        for v in c['variants'][1:]:
            ctx.count('together-1param/%s/%s' % (fn, '+'.join(sorted(v))))
        explore_together(ctx, c)


# ------------------------------------------------------------------ run / search / replay
def explore(ctx, case, pending=None):
    ctx.case(case, nontrivial=True)
    ctx.count('fn/%s' % case['fn'])
    ctx.count('chunking/%s' % case.get('style', '?'))
    ctx.count('sched/%s-%s' % (case['sched'], case['workers']))
    ctx.count('dtype/%s' % case['dtype'])
    lay = case.get('layout') or LAYOUTS[0]
    ctx.count('layout/%s%s%s%s' % ('-'.join(lay['dims']), '' if lay['coords'] else '/nocoords', '/scalar' if lay['scalar'] else '',
                                  '/desc' if lay['desc'] else ''))
    if case['fn'] == 'mean':
        ctx.count('param/mean/passes=%d' % case['passes'])
        ctx.count('param/mean/excludes=%s' % ('default' if case.get('excludes') is None else len(case['excludes'])))
    if case['fn'] == 'equal_interval':
        ctx.count('param/equal_interval/k%s' % ('<=6' if case['k'] <= 6 else '<=16' if case['k'] <= 16 else '<=64'))
    if case.get('kind') == 'offset':
        ctx.count('param/hotspots/offset')
    rn, rd, isd = run_both(case)
    ok = oracle(ctx, case, rn, rd, isd)
    if ok and pending is not None and model_eligible(case):
        try:
            pending.append((model_lines(case), case, rn, rd))
        except Exception as e:   # noqa
            ctx.violation('correspondence', 'cannot build the model case: %s' % e, case)
    return ok


def targeted_cases(rng, fn):
    """the property's named hard cases: 1-cell chunks, chunks smaller than the kernel, non-square kernels, non-square cells"""
    out = []
    if fn in KERNELLED:
        for (kr, kc) in [(1, 3), (3, 1), (5, 3), (3, 7)]:
            H = rng.randint(kr, 12)
            W = rng.randint(kc, 12)
            c = gen_case(rng, fn, H, W, style=rng.choice(['ones', 'small', 'random']))
            c['kernel'] = gen_kernel(rng, H, W, binary=(fn != 'convolution_2d'), force=(kr, kc))
            c['chunks'] = gen_chunks(rng, H, W, c['style'], (kr // 2, kc // 2))
            out.append(c)
        if fn == 'hotspots':
            # large offset / small spread: the conditioning |mean|/std of the global z-score is 1e2 .. 1e5
            for _ in range(2):
                H, W = rng.randint(6, 12), rng.randint(6, 12)
                c = gen_case(rng, fn, H, W)
                c['dtype'] = rng.choice(['int32', 'int64', 'uint32', 'float32', 'float64'])
                c['data'] = gen_hotspot_offset(rng, H, W)
                c['kind'] = 'offset'
                c['kernel'] = [[1.0] * 3 for _ in range(3)]
                c['chunks'] = gen_chunks(rng, H, W, c['style'], (1, 1))
                out.append(c)
    else:
        for style in ('ones', 'single', 'random'):
            out.append(gen_case(rng, fn, rng.randint(2, 9), rng.randint(2, 9), style=style))
    return out


def run(ctx, heavy=False):
    global _DT_POOL
    rng = ctx.rng
    quick = ctx.quick() and not heavy
    _DT_POOL = (rng.sample(INT_DT, 3) + ['float32', 'float64'] * 2 + (['float16'] if rng.random() < 0.3 else [])) \
        if quick else None
    ctx.notes.append('dtype pool of this run: %s' % (sorted(set(_DT_POOL)) if _DT_POOL else 'all'))
    pending = []
    per_fn = 6 if quick else 100
    # safety net only (the case counts above are sized for ~70 s quick on an idle machine): counted from the start of
    # run(), NOT from process start, so that a cold Coq/OCaml build or a loaded machine does not shrink the coverage
    import time as _time
    _t_run0 = _time.time()
    budget = 240 if quick else 17 * 60
    fns = list(ALL_FNS)
    # 1. named hard cases + random cases, every function
    for fn in fns:
        if fn == 'generate_terrain':
            n = 2 if quick else 12
            cases = [gen_case(rng, fn, rng.randint(2, 8), rng.randint(2, 8)) for _ in range(n)]
            for i, c in enumerate(cases):       # first case: tile covering unequal x / y fractions of full_extent
                terrain_params(rng, c, asym=True if i == 0 else None)
        elif fn == 'perlin':
            cases = [gen_case(rng, fn) for _ in range(4 if quick else 20)]
        else:
            cases = targeted_cases(rng, fn) + [gen_case(rng, fn) for _ in range(per_fn)]
        for c in cases:
            if (_time.time() - _t_run0) > budget:
                ctx.notes.append('time budget reached during the random sweep')
                break
            explore(ctx, c, pending)
    # 1b. several lazy results on the same Dask raster, different parameters, ONE dask.compute
    for rnd in range(1 if quick else 6):
        for fn in PARAM_FNS:
            if (_time.time() - _t_run0) > budget:
                break
            if fn == 'generate_terrain' and (quick or rnd > 1):
                continue
            explore_together(ctx, gen_together(rng, fn))
        # reclassify: the named hard case (same bins, different new_values) every round, twice
        for _ in range(2):
            c = gen_together(rng, 'reclassify')
            for v in c['variants'][1:]:
                v.pop('bins', None)
            explore_together(ctx, c)
    # 2. model-eligible cases (integer data, integer kernels) so that the correspondence has enough traces
    n_model = 45 if quick else 600
    for i in range(n_model):
        if (_time.time() - _t_run0) > budget:
            break
        fn = ['convolution_2d', 'curvature', 'apply', 'mean', 'hillshade'][i % 5]
        c = gen_case(rng, fn, rng.randint(2 if fn == 'hillshade' else 1, 8), rng.randint(2 if fn == 'hillshade' else 1, 8))
        if fn == 'hillshade':
            c['angle_altitude'] = 90
        c['dtype'] = rng.choice(['int16', 'int32', 'float32', 'float64', 'uint8'])
        c['data'] = [[float('nan') if (c['dtype'] in FLT_DT and rng.random() < 0.12) else float(rng.randint(0 if c['dtype'] == 'uint8' else -5, 20))
                      for _ in range(c['W'])] for _ in range(c['H'])]
        c['cellsize'] = [1.0, 1.0]
        c['res_attr'] = True
        if fn == 'convolution_2d':
            c['kernel'] = [[float(rng.randint(-1, 3)) for _ in row] for row in c['kernel']]
        if fn == 'apply':
            c['func'] = rng.choice(['_calc_sum', '_calc_max', '_calc_min'])
        if fn == 'mean':
            c['passes'] = 1
            c['excludes'] = None
        explore(ctx, c, pending)
    # 3. thorough: ALL chunkings for H, W <= 4
    if not quick:
        ex_fns = ['slope', 'aspect', 'curvature', 'hillshade', 'mean', 'apply', 'convolution_2d', 'hotspots',
                  'focal_stats', 'binary', 'reclassify', 'equal_interval', 'ndvi', 'arvi', 'true_color', 'perlin']
        done_all = True
        for fn in ex_fns:
            for H in range(1, 5):
                for W in range(1, 5):
                    base = gen_case(rng, fn, H, W, style='all')
                    for cy in all_compositions(H):
                        for cx in all_compositions(W):
                            if (_time.time() - _t_run0) > budget:
                                done_all = False
                                break
                            c = dict(base, chunks=[cy, cx])
                            s = SCHEDS[(len(cy) + len(cx)) % len(SCHEDS)]
                            c['sched'], c['workers'] = s
                            explore(ctx, c, pending)
        ctx.notes.append('exhaustive chunkings for H,W<=4 over %d functions: %s' % (
            len(ex_fns), 'complete' if done_all else 'cut by the time budget'))
    ctx.exhaustive = False
    check_model(ctx, pending)
    run_probes(ctx, probe_cases(rng, quick))
    # 4. (appended last) decimal-grid rasters at the thresholds derived from global scalars in the raster's precision
    threshold_stream(ctx, rng, quick)
    # 5. (appended last) theme audit: extreme magnitudes and thresholds one ulp around cells, parameter containers /
    # orders / falsy values, kernels of 100+ cells, coordinate origins and spacings, degenerate rasters, memory layouts,
    # per-argument chunkings, and call sequences (repeat, deferred compute, chained lazy results, derived rasters)
    theme_stream(ctx, rng, quick)
    # 6. (appended last) several lazy results in ONE dask.compute, the variants differing in exactly one parameter
    # (extent tile pair of generate_terrain, seed, zfactor, kernel, bins, new_values, nodata, k, one band of the data)
    together_systematic_stream(ctx, rng, quick)


def search(ctx):
    """a proof obligation / the correspondence broke and the normal run showed no failing input: more cases, biased to
    non-square kernels, NaN placement and small chunks"""
    global _DT_POOL
    _DT_POOL = None
    model = ctx.model
    ctx.model = None
    try:
        rng = ctx.rng
        t_end = ctx.elapsed() + 240
        n0 = len([v for v in ctx.violations if v['kind'] == 'oracle'])
        rounds = 0
        while ctx.elapsed() < t_end and rounds < 40:
            rounds += 1
            for fn in ALL_FNS:
                if fn == 'generate_terrain' and rounds > 1:
                    continue
                cases = targeted_cases(rng, fn) if fn not in ('perlin', 'generate_terrain') else [gen_case(rng, fn, rng.randint(2, 8), rng.randint(2, 8))]
                for c in cases:
                    explore(ctx, c, None)
                if fn in PARAM_FNS and fn != 'generate_terrain':
                    explore_together(ctx, gen_together(rng, fn))
            if rounds == 1:
                explore_together(ctx, gen_together(rng, 'generate_terrain'))
                explore_together(ctx, gen_together_systematic(rng, 'generate_terrain', 3))
            for _ in range(10):
                explore(ctx, gen_threshold_case(rng, 'equal_interval'), None)
            if len([v for v in ctx.violations if v['kind'] == 'oracle']) > n0:
                break
    finally:
        ctx.model = model


def _unjson(o):
    if isinstance(o, dict):
        return {k: _unjson(v) for k, v in o.items()}
    if isinstance(o, list):
        return [_unjson(v) for v in o]
    if o in ('nan', 'inf', '-inf'):
        return float(o)
    return o


def replay_case(ctx, case):
    case = _unjson(case)
    pending = []
    if 'variants' in case:
        case = {k: v for k, v in case.items() if k != 'failing_variant'}
        explore_together(ctx, case)
        return
    if 'seq' in case:
        explore_sequence(ctx, case)
        return
    explore(ctx, case, pending)
    check_model(ctx, pending)
