"""C07 — chunked (Dask) proximity / allocation / direction equal the whole-raster (NumPy) result.
Correspondence: Dask vs NumPy vs the extracted Coq model (coq/C07/Model.v: C06's four-sweep model run on every
padded block, pad regenerated from _process_dask) ; oracle: Dask output == NumPy output cell by cell, plus the C06
oracle on the Dask output."""
import ast
import math
import os
from fractions import Fraction

import numpy as np

from harness import common
from harness.props import c06

ID = 'C07'
NWORKERS = 6
INF = float('inf')


# ----------------------------------------------------------------------------------------------
# facts: regenerate the halo expression / axis order / fallback test from the source (fail closed)
# ----------------------------------------------------------------------------------------------
class Refuse(Exception):
    pass


def _q(c):
    f = Fraction(c)
    return '(%d # %d)' % (f.numerator, f.denominator)


def _expr(e, names):
    """Python arithmetic expression -> Coq term over Q (int(...) -> inject_Z (int_trunc ...))"""
    if isinstance(e, ast.Name):
        if e.id not in names:
            raise Refuse('unknown name %s' % e.id)
        return e.id
    if isinstance(e, ast.Constant) and isinstance(e.value, (int, float)) and not isinstance(e.value, bool):
        return _q(e.value)
    if isinstance(e, ast.BinOp):
        ops = {ast.Add: '+', ast.Sub: '-', ast.Mult: '*', ast.Div: '/'}
        if type(e.op) not in ops:
            raise Refuse('operator %s' % type(e.op).__name__)
        return '(%s %s %s)' % (_expr(e.left, names), ops[type(e.op)], _expr(e.right, names))
    raise Refuse('expression %s' % ast.dump(e)[:80])


def _int_call(e, names):
    if not (isinstance(e, ast.Call) and isinstance(e.func, ast.Name) and e.func.id == 'int' and len(e.args) == 1
            and not e.keywords):
        raise Refuse('expected int(<expr>), got %s' % ast.dump(e)[:80])
    return 'int_trunc %s' % _expr(e.args[0], names)


def _find_func(tree, name):
    for n in ast.walk(tree):
        if isinstance(n, ast.FunctionDef) and n.name == name:
            return n
    raise Refuse('function %s not found' % name)


def _names(t):
    if isinstance(t, ast.Tuple):
        return [x.id for x in t.elts if isinstance(x, ast.Name)]
    return [t.id] if isinstance(t, ast.Name) else []


def facts(repo):
    src_p = open(os.path.join(repo, 'xrspatial', 'proximity.py')).read()
    src_u = open(os.path.join(repo, 'xrspatial', 'utils.py')).read()
    fd = _find_func(ast.parse(src_p), '_process_dask')
    body = [s for s in fd.body if not (isinstance(s, ast.Expr) and isinstance(s.value, ast.Constant))]
    if len(body) != 3 or not isinstance(body[0], ast.If) or not isinstance(body[1], ast.Assign) \
            or not isinstance(body[2], ast.Return):
        raise Refuse('_process_dask: unexpected statement structure')
    iff = body[0]
    t = iff.test
    if not (isinstance(t, ast.Compare) and isinstance(t.left, ast.Name) and t.left.id == 'max_distance'
            and len(t.ops) == 1 and isinstance(t.ops[0], ast.GtE)
            and isinstance(t.comparators[0], ast.Name) and t.comparators[0].id == 'max_possible_distance'):
        raise Refuse('fallback test is not  max_distance >= max_possible_distance')
    # then-branch: rechunk to one block, pad_y = pad_x = 0
    then_src = ast.unparse(ast.Module(body=iff.body, type_ignores=[]))
    want_then = ('height, width = raster.shape\n'
                 'raster.data = raster.data.rechunk({0: height, 1: width})\n'
                 'xs = xs.rechunk({0: height, 1: width})\n'
                 'ys = ys.rechunk({0: height, 1: width})\n'
                 'pad_y = pad_x = 0')
    if then_src.strip() != want_then:
        raise Refuse('single-chunk branch changed:\n' + then_src)
    # else-branch: cell sizes, pads
    els = iff.orelse
    if len(els) != 3:
        raise Refuse('halo branch: expected 3 statements')
    a0 = els[0]
    if not (isinstance(a0, ast.Assign) and _names(a0.targets[0]) in (['cellsize_x', 'cellsize_y'],)
            and isinstance(a0.value, ast.Call) and isinstance(a0.value.func, ast.Name)
            and a0.value.func.id == 'get_dataarray_resolution' and len(a0.value.args) == 1
            and isinstance(a0.value.args[0], ast.Name) and a0.value.args[0].id == 'raster' and not a0.value.keywords):
        raise Refuse('expected  cellsize_x, cellsize_y = get_dataarray_resolution(raster)')
    names = {'max_distance', 'cellsize_x', 'cellsize_y'}
    pads = {}
    for st in els[1:]:
        if not (isinstance(st, ast.Assign) and len(st.targets) == 1 and isinstance(st.targets[0], ast.Name)
                and st.targets[0].id in ('pad_x', 'pad_y')):
            raise Refuse('expected pad_x / pad_y assignment')
        pads[st.targets[0].id] = _int_call(st.value, names)
    if set(pads) != {'pad_x', 'pad_y'}:
        raise Refuse('pad_x / pad_y not both assigned')
    # the map_overlap call
    call = body[1].value
    if not (isinstance(call, ast.Call) and ast.unparse(call.func) == 'da.map_overlap'):
        raise Refuse('expected da.map_overlap(...)')
    if [ast.unparse(a) for a in call.args] != ['_process_numpy', 'raster.data', 'xs', 'ys']:
        raise Refuse('map_overlap positional arguments changed: %s' % [ast.unparse(a) for a in call.args])
    kw = {k.arg: k.value for k in call.keywords}
    if set(kw) != {'depth', 'boundary', 'meta'}:
        raise Refuse('map_overlap keywords changed: %s' % sorted(kw))
    dp = kw['depth']
    if not (isinstance(dp, ast.Tuple) and len(dp.elts) == 2 and all(isinstance(x, ast.Name) for x in dp.elts)
            and all(x.id in ('pad_x', 'pad_y') for x in dp.elts)):
        raise Refuse('depth is not a pair of pad names')
    if ast.unparse(kw['boundary']) not in ('np.nan',):
        raise Refuse('boundary is not np.nan: %s' % ast.unparse(kw['boundary']))
    if not (isinstance(body[2].value, ast.Name) and body[2].value.id == body[1].targets[0].id):
        raise Refuse('return value is not the map_overlap result')
    # utils.calc_res / get_dataarray_resolution (the part used here: no `res` attribute)
    tu = ast.parse(src_u)
    cr = _find_func(tu, 'calc_res')
    crb = [s for s in cr.body if not (isinstance(s, ast.Expr) and isinstance(s.value, ast.Constant))]
    want = ['h, w = raster.shape[-2:]', 'xrange, yrange = get_xy_range(raster, xdim, ydim)',
            'xres = (xrange[-1] - xrange[0]) / (w - 1)', 'yres = (yrange[-1] - yrange[0]) / (h - 1)',
            'return (xres, yres)']
    if [ast.unparse(s) for s in crb] != want:
        raise Refuse('calc_res changed: %s' % [ast.unparse(s) for s in crb])
    gx = _find_func(tu, 'get_xy_range')
    gsrc = ast.unparse(gx)
    for frag in ('xmin = raster[xdim].min().item()', 'xmax = raster[xdim].max().item()',
                 'ymin = raster[ydim].min().item()', 'ymax = raster[ydim].max().item()',
                 'xrange = (xmin, xmax)', 'yrange = (ymin, ymax)', 'return (xrange, yrange)',
                 'ydim = raster.dims[-2]', 'xdim = raster.dims[-1]'):
        if frag not in gsrc:
            raise Refuse('get_xy_range changed: missing %r' % frag)
    gr = _find_func(tu, 'get_dataarray_resolution')
    gsrc = ast.unparse(gr)
    if 'cellsize_x, cellsize_y = calc_res(agg, xdim, ydim)' not in gsrc or 'return (cellsize_x, cellsize_y)' not in gsrc:
        raise Refuse('get_dataarray_resolution changed')
    out = []
    out.append('(* GENERATED by harness/props/c07.py facts() from xrspatial/proximity.py (_process_dask) and')
    out.append('   xrspatial/utils.py (calc_res, get_xy_range, get_dataarray_resolution). Do not edit. *)')
    out.append('From Coq Require Import ZArith QArith Qround.')
    out.append('Open Scope Q_scope.')
    out.append('(* Python int(): truncation toward zero *)')
    out.append('Definition int_trunc (q : Q) : Z := if Qle_bool 0 q then Qfloor q else Qceiling q.')
    out.append('(* calc_res: (max - min) / (n - 1) per axis; x uses shape[-1], y uses shape[-2] *)')
    out.append('Definition calc_res (cmin cmax : Q) (n : Z) : Q := (cmax - cmin) / (inject_Z n - 1).')
    for nm in ('pad_y', 'pad_x'):
        out.append('Definition %s (max_distance cellsize_x cellsize_y : Q) : Z := %s.' % (nm, pads[nm]))
    out.append('(* depth=(%s, %s): first component pads axis 0 (rows), second pads axis 1 (columns) *)' % (
        dp.elts[0].id, dp.elts[1].id))
    out.append('Definition depth (max_distance cellsize_x cellsize_y : Q) : Z * Z :=')
    out.append('  (%s max_distance cellsize_x cellsize_y, %s max_distance cellsize_x cellsize_y).' % (
        dp.elts[0].id, dp.elts[1].id))
    out.append('(* boundary=np.nan for the data and both coordinate grids; single block when max_distance >= max_possible_distance *)')
    out.append('Definition boundary_is_nan : bool := true.')
    out.append('Definition fallback_test_is_ge : bool := true.')
    c06m = open(os.path.join(common.COQ, 'C06', 'Model.v')).read()
    c06m = ('(* GENERATED: verbatim copy of coq/C06/Model.v (the C06 model reused per padded block). Do not edit. *)\n'
            + c06m)
    return {'Generated.v': '\n'.join(out) + '\n', 'Generated_C06Model.v': c06m}


RULE = ('integer-valued rasters up to 10x10 (every dtype Numba takes: float64/32, int8..64, uint8..64, bool; NaN/inf cells; target_values list / ints / tuple / ndarray with duplicated, absent, 0, NaN, inf entries; dimension names passed through x= / y=; float64 and int64 coordinate arrays; max_distance None) with uniform integer coordinates (unit, non-square cx != cy, descending, offset; '
        'optionally a consistent `res` attribute), random chunkings of rows and columns (all compositions, incl. 1-cell chunks '
        'that Dask merges up to the halo size), max_distance chosen relative to the cell sizes (k, k+1/2, just below/above, '
        'sqrt2, ..) so that targets sit just inside / outside the halo, max_distance >= the raster diagonal (single-chunk '
        'fallback) and inf; metrics EUCLIDEAN and MANHATTAN; 0 among target_values with coordinates at the origin; 12x16 rasters with 1-2 cell chunks '
        'and a 4-5 cell halo; two rasters of equal shape/chunking but different cell size computed together with dask.compute; '
        'rasters far from the origin with a finite max_distance at or above the true extent (single-block path expected); a deterministic halo-edge family (cell sizes 0.2, 0.1, 0.01, 0.3, max_distance = k*cellsize for k in 1..7 as float product and '
        'as decimal literal, one target and a probe exactly k cells apart across a chunk boundary); schedulers threads / synchronous; within the stated domain '
        '(halo in cells <= raster height/width). Dask and NumPy are both run (two of proximity/allocation/direction per case, '
        'rotating). A case is non-trivial when it has a target, a non-target cell and more than one block. In addition the '
        'extracted model alone is searched for a chunked != whole counter-example on random layouts/chunkings up to 8x8.')
TRUSTED = c06.TRUSTED + [
    'dask.array.map_overlap itself (halo exchange, boundary=nan padding, trimming, automatic merging of chunks smaller than '
    'the halo: the effective chunks are obtained from dask.array.overlap.ensure_minimum_chunksize) is modelled, not verified',
    'halo arithmetic is proved over Q; binary64 evaluation of int(max_distance / cellsize + 0.5) is assumed to agree (the '
    'generated cases keep the quotient away from rounding boundaries except where it is exactly representable)',
    'the C06 model is copied verbatim into coq/C07/Generated_C06Model.v on every run',
]
ASSUMPTIONS = ['the halo in cells does not exceed the raster height/width (documented Dask limitation); rasters have at '
               'least 2 rows and 2 columns unless a `res` attribute is given (calc_res divides by n-1); ascending or '
               'descending uniform coordinates; max_distance >= 0 or None; GREAT_CIRCLE on Dask only with max_distance beyond the '
               'diagonal (the halo is max_distance in metres divided by the cell size in degrees: any useful finite value exceeds the '
               'raster, the documented Dask limitation); float16 is rejected by Numba']
PARTIAL = [
    'C07_chunked_eq_whole_full_statement (chunked = whole for the four-sweep HEURISTIC on every grid) is NOT claimed and is in '
    'fact FALSE: Example C07_chunked_neq_whole_witness (a 3x6 grid, max_distance sqrt 8, chunks (2,1)x(6)) - the implementation '
    'shows the same Dask != NumPy difference there (known finding heuristic-window-dependence: a Dask/NumPy difference is '
    'classified as that finding only if NumPy on the block extended by a correct halo reproduces the Dask values and the exact '
    'nearest-target answer equals one of the two values; any other difference stays a violation); the '
    'heuristic is not an exact nearest-target algorithm and nothing forces its error to be chunk independent; it is proved '
    'under the hypothesis that block results are exact (C07_exact_blocks_chunked_eq_whole), checked by vm_compute on all '
    'layouts x chunkings up to 3x3 (C07_bounded_chunked_eq_whole_small), and searched for counter-examples with the '
    'extracted model and against the implementation',
    'the link between the key-space threshold M of the model and max_distance in C07_halo_covers (rational arithmetic) is '
    'the harness translation of the float chain (see TRUSTED of C06)',
    'schedulers: the model is scheduler independent (pure function per block); threads and synchronous schedulers are '
    'exercised by the correspondence only',
]
LEVEL_TEXT = ('Proved in Coq for all inputs: the generated halo depth (rows <-> cellsize_y, columns <-> cellsize_x, '
              'int(max_distance/cellsize + 1/2)) contains every cell within EUCLIDEAN or MANHATTAN max_distance of any block '
              'cell (over Q); max_distance >= max possible distance runs one block and that equals the NumPy computation; '
              'if block results were exact nearest-within-max_distance, chunked = whole. Bounded (vm_compute): for the real '
              'heuristic, every layout x every chunking x max_distance = 1 on grids up to 3x3 (and 3/2, 2 on grids with <= 6 cells): chunked = whole. '
              'The unbounded statement for the heuristic is not claimed. Correspondence: Dask vs NumPy vs the extracted '
              'block model on random chunkings.')
LEVEL_NOTE = ('Dask and NumPy can differ through the window dependence of the sweep heuristic itself (recorded known finding with a '
              'Coq witness); everything else that differs is reported. dask.array.map_overlap (halo exchange, NaN boundary, trimming, chunk merging) is modelled from its '
              'documentation, not verified; the halo expression, axis order, boundary value and fallback test are '
              'regenerated from the source by a fail-closed ast translator; float evaluation of the halo expression and the '
              'float32 distance chain are translated by the harness (checked per case for monotonicity).')


# ----------------------------------------------------------------------------------------------
# model side
# ----------------------------------------------------------------------------------------------
def effective_chunks(chunks, pad):
    """chunks dask really uses: map_overlap merges chunks smaller than the halo"""
    pad = min(pad, sum(chunks))             # a depth beyond the axis is outside the domain; keep the helper total
    if pad <= 0:
        return list(chunks)
    from dask.array.overlap import ensure_minimum_chunksize
    return list(ensure_minimum_chunksize(pad, tuple(chunks)))


def py_pads(case):
    """the implementation's pads in binary64, for choosing cases inside the domain"""
    md = case['max_distance']
    if md in ('inf', None):
        return 0, 0
    xs, ys = case['xs'], case['ys']
    if case.get('res') is not None:
        cx, cy = case['res']
    else:
        cx = (max(xs) - min(xs)) / (len(xs) - 1)
        cy = (max(ys) - min(ys)) / (len(ys) - 1)
    return int(float(md) / cy + 0.5), int(float(md) / cx + 0.5)


def max_possible(case):
    """(key, float32 distance) between the first and the last cell; the key only for integer coordinates"""
    xs, ys = case['xs'], case['ys']
    dx, dy = float(xs[0]) - float(xs[-1]), float(ys[0]) - float(ys[-1])
    if dx == int(dx) and dy == int(dy):
        k = c06.key_of(case['metric'], int(dx), int(dy))
        return k, c06.dist32_of_key(case['metric'], k)
    d = abs(dx) + abs(dy) if case['metric'] == 'MANHATTAN' else math.sqrt(dx * dx + dy * dy)
    return None, c06.f32(d)


def is_fallback(case):
    if case.get('metric') == 'GREAT_CIRCLE':
        return True                                  # only generated with max_distance beyond the diagonal
    md = case['max_distance']
    md = INF if md in ('inf', None) else float(md)
    return md >= max_possible(case)[1]


def model_line(case):
    metric = case['metric']
    md = case['max_distance']
    mdf = INF if md in ('inf', None) else float(md)
    xs = [int(v) for v in case['xs']]
    ys = [int(v) for v in case['ys']]
    R, M, ties = c06.key_params(metric, xs, ys, mdf)
    kd, dd = max_possible(case)
    F = 'inf' if mdf == INF else (str(kd) if mdf >= dd else str(kd - 1))
    if mdf == INF:
        mdn, mdd = 0, 0
    else:
        fr = Fraction(mdf)
        mdn, mdd = fr.numerator, fr.denominator
    data = c06.cast_data(case)
    h, w = len(data), len(data[0])
    tvt, cellt = c06.xv_tokens(case)
    py, px = py_pads(case) if not is_fallback(case) else (0, 0)
    rch = effective_chunks(case['chunks'][0], py)
    cch = effective_chunks(case['chunks'][1], px)
    from harness import xvio
    return 'dask %d %d %s %s %s %s %s %s %d %s %d %s %d %s %d %s %d %s %d %d %s' % (
        2 if metric == 'MANHATTAN' else 0, len(ties), ' '.join(map(str, ties)), R, M, F,
        xvio.tok_int(mdn), xvio.tok_int(mdd),
        len(xs), ' '.join(map(str, xs)), len(ys), ' '.join(map(str, ys)),
        len(tvt), ' '.join(tvt),
        len(rch), ' '.join(map(str, rch)), len(cch), ' '.join(map(str, cch)),
        h, w, ' '.join(cellt)), (py, px)


def whole_line(case):
    return 'whole ' + c06.model_line(case)[len('proxd '):]


# ----------------------------------------------------------------------------------------------
# generators
# ----------------------------------------------------------------------------------------------
def compositions_random(rng, n, style):
    if style == 'single':
        return [n]
    if style == 'ones':
        return [1] * n
    out = []
    left = n
    while left > 0:
        k = rng.randint(1, max(1, min(left, 4 if style == 'small' else left)))
        out.append(k)
        left -= k
    return out


def gen_case(rng, i):
    h, w = rng.randint(2, 10), rng.randint(2, 10)
    layout = ['single', 'sparse', 'sparse', 'distinct', 'edges', 'dense', 'diag', 'line'][i % 8]
    g = c06.gen_layout(rng, h, w, layout)
    metric = 'MANHATTAN' if i % 4 == 3 else 'EUCLIDEAN'
    cx = rng.choice([1, 1, 2, 3, 5])
    cy = rng.choice([1, 1, 2, 3, 5])
    x0, y0 = rng.choice([0, -4, 7]), rng.choice([0, 3, -9])
    xs = [x0 + cx * j for j in range(w)]
    ys = [y0 + cy * j for j in range(h)]
    ykind = 'asc'
    xkind = 'asc'
    if rng.random() < 0.4:
        ys = ys[::-1]
        ykind = 'desc'
    if rng.random() < 0.2:
        xs = xs[::-1]
        xkind = 'desc'
    # max_distance relative to a cell size so that the halo boundary is exercised
    u = rng.random()
    cs = rng.choice([cx, cy])
    k = rng.randint(0, 3)
    if u < 0.10:
        md = 'inf'
    elif u < 0.18:
        md = float(10 * (cx * w + cy * h))          # >= max possible: single-chunk fallback
    elif u < 0.30:
        md = float(k * cs)
    elif u < 0.42:
        md = (k + 0.5) * cs
    elif u < 0.54:
        md = (k + 0.5) * cs - 0.125
    elif u < 0.62:
        md = (k + 1) * cs - 0.125
    elif u < 0.72:
        md = math.sqrt(2.0) * cs * max(1, k)
    elif u < 0.80:
        md = math.sqrt(5.0) * cs
    else:
        md = rng.choice([0.5, 0.75, 1.0, 1.5, 2.0, 2.5, 3.0, 4.0, 6.0])
    dtype = rng.choice(c06.DTYPES)
    data = [[float(v) for v in row] for row in g]
    tv = []
    mode = 'default'
    if rng.random() < 0.3:
        present = sorted({v for row in g for v in row if v != 0})
        if present:
            tv = [float(v) for v in rng.sample(present, min(len(present), rng.randint(1, 2)))]
            tv = c06.vary_target_values(rng, tv)
            mode = 'target_values'
    if dtype.startswith('float'):
        for r in range(h):
            for c in range(w):
                u2 = rng.random()
                if u2 < 0.02:
                    data[r][c] = float('nan')
                elif u2 < 0.03:
                    data[r][c] = float('inf')
    if rng.random() < 0.04:
        md = None
    style = rng.choice(['any', 'any', 'small', 'small', 'ones', 'single'])
    chunks = [compositions_random(rng, h, style), compositions_random(rng, w, rng.choice([style, 'any', 'small']))]
    case = dict(fn='dask', layout=layout, metric=metric, data=data, dtype=dtype, xs=xs, ys=ys, cdtype='float64',
                ykind=ykind, xkind=xkind, tv=tv, mode=mode, max_distance=md, chunks=chunks,
                scheduler=rng.choice(['threads', 'threads', 'synchronous']))
    if rng.random() < 0.2:
        case['res'] = [float(cx), float(cy)]
    if tv:
        case['tv_kind'] = rng.choice(['list', 'list', 'ints', 'tuple', 'ndarray'])
    if rng.random() < 0.2:
        case['dims'] = rng.choice([['lat', 'lon'], ['row', 'col'], ['x', 'y']])
    if rng.random() < 0.2:
        case['cdtype'] = 'int64'
    return case


def gc_cases(ctx):
    """GREAT_CIRCLE on Dask: max_distance is in metres while the halo is derived from the cell size in degrees, so only the
    single-chunk fallback (inf / None / beyond the diagonal) is inside the stated domain; Dask vs NumPy only"""
    rng = ctx.rng
    out = []
    for i in range(2):
        c = c06.gen_gc_case(rng, rng.randrange(12))
        c['fn'] = 'dask'
        c['max_distance'] = ['inf', None, 5.0e7][rng.randrange(3)]
        h, w = len(c['ys']), len(c['xs'])
        c['chunks'] = [compositions_random(rng, h, 'small'), compositions_random(rng, w, 'any')]
        c['scheduler'] = 'threads'
        c['only'] = ONLY[i]
        c['ykind'], c['xkind'] = 'gc', 'gc'
        c['no_model'] = True
        out.append(c)
    return out


def in_domain(case):
    if is_fallback(case):
        return True
    py, px = py_pads(case)
    return py <= len(case['ys']) and px <= len(case['xs'])


ONLY = [['proximity', 'allocation'], ['proximity', 'direction'], ['allocation', 'direction']]


def gen_cases(ctx, n):
    rng = ctx.rng
    cases = []
    i = 0
    while len(cases) < n:
        c = gen_case(rng, i)
        i += 1
        if in_domain(c):
            c['only'] = ONLY[len(cases) % 3]
            cases.append(c)
    return cases


def nontrivial(case):
    return c06.nontrivial(case) and (len(case['chunks'][0]) > 1 or len(case['chunks'][1]) > 1)


def grids_equal(a, b):
    return len(a) == len(b) and all(len(x) == len(y) and all(c06.same(p, q) for p, q in zip(x, y)) for x, y in zip(a, b))


def first_diff(a, b):
    for r, (x, y) in enumerate(zip(a, b)):
        for c, (p, q) in enumerate(zip(x, y)):
            if not c06.same(p, q):
                return r, c, p, q
    return None


KEY_WINDOW = 'heuristic-window-dependence'


def correct_halos(case):
    """halo depths (rows, columns) that contain every cell within max_distance of a block, from the property text alone and
    measured the way the outputs are: along one axis a cell k steps away is within reach iff its float32 distance (from the
    raster's own coordinates) is <= max_distance; the largest such k is the least correct depth, one more cell the other
    candidate.  (Dividing max_distance by a cell size in exact arithmetic would be one short for 1.0 / 0.2-like quotients.)"""
    md = case['max_distance']
    if md in ('inf', None) or is_fallback(case):
        return None
    md = float(md)
    lim = max(md, c06.f32(md))

    def reach(coords):
        cs = [float(v) for v in coords]
        best = 0
        for i in range(len(cs)):
            for j in range(i + 1, len(cs)):
                if c06.f32(abs(cs[j] - cs[i])) <= lim:
                    best = max(best, j - i)
        return best
    hy, hx = reach(case['ys']), reach(case['xs'])
    return [hy, hy + 1], [hx, hx + 1]


def block_of(sizes, k):
    start = 0
    for sz in sizes:
        if start <= k < start + sz:
            return start, sz
        start += sz
    raise ValueError(k)


def exact_answers(case, r, c):
    """brute force: {function: set of acceptable values} for the truly nearest target within max_distance (NaN if none)"""
    metric = case['metric']
    md = case['max_distance']
    md = INF if md in ('inf', None) else float(md)
    data = c06.cast_data(case)
    tv = c06.case_tv(case)
    xs = [float(v) for v in case['xs']]
    ys = [float(v) for v in case['ys']]
    ds = [(c06.true_dist(metric, xs[c], ys[r], xs[tc], ys[tr]), tr, tc) for tr in range(len(data)) for tc in range(len(data[0]))
          if c06.is_target_val(data[tr][tc], tv)]
    ds = [x for x in ds if x[0] <= max(md, c06.f32(md))]
    if not ds:
        return None
    dmin = min(x[0] for x in ds)
    best = [x for x in ds if x[0] == dmin]
    return {'proximity': [dmin], 'allocation': [c06.f32(data[tr][tc]) for _, tr, tc in best],
            'direction': [c06.compass(xs[c], ys[r], xs[tc], ys[tr]) for _, tr, tc in best]}


def agrees(name, v, exact):
    if exact is None:
        return math.isnan(v)
    if math.isnan(v):
        return False
    if name == 'direction':
        return any(abs(v - e) <= 1e-3 for e in exact[name])
    return any(c06.same(v, e) for e in exact[name])


def classify_differences(ctx, differing, pool):
    """{case index: True iff every Dask/NumPy difference of the case is reproduced by NumPy on the cell's block extended by a
    CORRECT halo (all computed outputs equal the Dask values there) and the exact answer agrees with one of the two values}"""
    out, reqs, plan = {}, [], []
    for i, (case, gn, gd, names) in differing.items():
        out[i] = False
        halos = correct_halos(case)
        if halos is None:
            continue
        h, w = len(case['ys']), len(case['xs'])
        cells = sorted({(r, c) for n in case['only'] for r in range(h) for c in range(w)
                        if not c06.same(gn[n][r][c], gd[n][r][c])})
        for hy in halos[0]:
            for hx in halos[1]:
                rch = effective_chunks(case['chunks'][0], hy)
                cch = effective_chunks(case['chunks'][1], hx)
                blocks = sorted({(block_of(rch, r), block_of(cch, c)) for r, c in cells})
                if len(blocks) > 4:
                    continue
                for (r0, hr), (c0, wc) in blocks:
                    ra, rb = max(0, r0 - hy), min(h, r0 + hr + hy)
                    ca, cb = max(0, c0 - hx), min(w, c0 + wc + hx)
                    if rb - ra < 2 or cb - ca < 2:
                        continue
                    sub = dict(case, data=[row[ca:cb] for row in case['data'][ra:rb]], xs=case['xs'][ca:cb], ys=case['ys'][ra:rb])
                    if case.get('data_int') is not None:
                        sub['data_int'] = [row[ca:cb] for row in case['data_int'][ra:rb]]
                    sub.pop('res', None)
                    reqs.append({'op': 'numpy3', 'case': sub, 'only': case['only']})
                    plan.append((i, (hy, hx), (r0, hr, c0, wc), (ra, ca)))
    if not reqs:
        return out
    res = pool.map(reqs)
    explained = {}                               # (case, halo) -> set of cells reproduced
    for (i, halo, (r0, hr, c0, wc), (ra, ca)), r_ in zip(plan, res):
        case, gn, gd, names = differing[i]
        g, _ = c06.canon_impl(r_)
        if any(n not in g for n in case['only']):
            continue
        for r in range(r0, r0 + hr):
            for c in range(c0, c0 + wc):
                if all(c06.same(g[n][r - ra][c - ca], gd[n][r][c]) for n in case['only']):
                    explained.setdefault((i, halo), set()).add((r, c))
    for i, (case, gn, gd, names) in differing.items():
        h, w = len(case['ys']), len(case['xs'])
        cells = {(r, c) for n in case['only'] for r in range(h) for c in range(w) if not c06.same(gn[n][r][c], gd[n][r][c])}
        ok_exact = all(all(agrees(n, gn[n][r][c], ex) for n in case['only']) or all(agrees(n, gd[n][r][c], ex) for n in case['only'])
                       for (r, c) in cells for ex in [exact_answers(case, r, c)])
        if ok_exact and any(k[0] == i and cells <= v for k, v in explained.items()):
            out[i] = True
    return out


def check_cases(ctx, cases, pool, use_model=True):
    reqs = []
    for c in cases:
        reqs.append({'op': 'numpy3', 'case': c, 'only': c['only']})
        reqs.append({'op': 'dask3', 'case': c, 'chunks': c['chunks'], 'only': c['only']})
    res = pool.map(reqs)
    lines, idx = [], []
    differing = {}
    for i, case in enumerate(cases):
        rn, rd = res[2 * i], res[2 * i + 1]
        ctx.case(case, nontrivial=nontrivial(case))
        fb = is_fallback(case)
        ctx.count('%s/%s/%s/%s' % (case['metric'], 'fallback' if fb else ('inf' if case['max_distance'] in ('inf', None) else 'halo'),
                                   case['ykind'] + '-' + case['xkind'], case['scheduler']))
        ctx.count('dtype/%s' % case['dtype'])
        ctx.count('blocks/%s' % ('1' if len(case['chunks'][0]) * len(case['chunks'][1]) == 1 else
                                 ('2-4' if len(case['chunks'][0]) * len(case['chunks'][1]) <= 4 else '5+')))
        if 'fatal' in rn or 'fatal' in rd:
            ctx.violation('oracle', 'worker failed: %s %s' % (rn.get('fatal'), rd.get('fatal')), case)
            continue
        gn, en = c06.canon_impl(rn)
        gd, ed = c06.canon_impl(rd)
        for which, e in (('NumPy', en), ('Dask', ed)):
            if any(k.endswith('/mutated') for k in e):
                ctx.violation('oracle', 'the %s call changed the caller\'s raster: %r' % (which, e), dict(case, backend=which))
        bad = False
        if case.get('expect_single_block'):
            for name in case['only']:
                nb = (rd.get(name) or {}).get('numblocks')
                if nb is not None and list(nb) != [1, 1]:
                    ctx.violation('oracle', 'max_distance %r reaches the raster extent but Dask %s did not take the single-block '
                                  'path (result has %r blocks)' % (case['max_distance'], name, nb), dict(case, function=name))
        if case.get('probe') and 'proximity' in gn:
            check_probe(ctx, case, gn)
        for name in case['only']:
            if name not in gn:
                ctx.violation('oracle', 'NumPy %s raised: %s' % (name, en.get(name)), dict(case, function=name))
                bad = True
            elif name not in gd:
                ctx.violation('oracle', 'Dask %s raised although NumPy works: %s' % (name, ed.get(name)),
                              dict(case, function=name), key=None)
                bad = True
            elif not grids_equal(gn[name], gd[name]):
                differing.setdefault(i, (case, gn, gd, []))[3].append(name)
                bad = True
        if i in differing and not any(n not in gn or n not in gd for n in case['only']):
            continue                      # decided below (window classification), incl. the model comparison
        if bad or not use_model or case.get('no_model'):
            continue
        try:
            line, pads = model_line(case)
            lines.append(line)
            idx.append((case, gd, pads))
        except ValueError as e:
            ctx.notes.append('case skipped for the model (%s)' % e)
    # Dask != NumPy: an ordinary violation unless the WINDOW alone explains it (known finding heuristic-window-dependence)
    for i, known in classify_differences(ctx, differing, pool).items():
        case, gn, gd, names = differing[i]
        for name in names:
            r, c, p, q = first_diff(gn[name], gd[name])
            key = KEY_WINDOW if known else (KEY_INTCOORDS if intcoords_class(case) else None)
            ctx.violation('oracle', 'Dask %s differs from NumPy at cell (%d,%d): numpy %r, dask %r '
                          '[chunks %r, max_distance %r, metric %s]%s' % (
                              name, r, c, p, q, case['chunks'], case['max_distance'], case['metric'],
                              ' - NumPy on the block extended by the correct halo gives the Dask value: window dependence '
                              'of the sweep heuristic' if known else ''),
                          dict(case, function=name, cell=[r, c], numpy=p, dask=q), key=key)
        if known and use_model and not case.get('no_model'):
            try:
                line, pads = model_line(case)
                lines.append(line)
                idx.append((case, gd, pads))
            except ValueError as e:
                ctx.notes.append('case skipped for the model (%s)' % e)
    if ctx.model is not None and lines:
        outs = ctx.model.run(lines)
        for (case, gd, pads), mo in zip(idx, outs):
            ctx.traces += 1
            if mo.startswith('ERR'):
                ctx.violation('correspondence', 'model returned %s' % mo[:100], case)
                continue
            t = mo.split(' ', 2)
            mpads = (int(t[0]), int(t[1]))
            if mpads != pads and not is_fallback(case):
                ctx.violation('correspondence', 'halo depth: generated expression gives %r, binary64 evaluation of the '
                              'source expression %r' % (mpads, pads), dict(case, model_pads=mpads, py_pads=pads))
                continue
            c06.compare_model(ctx, case, gd, t[2] if len(t) > 2 else '', 'dask', per=3)


def model_search(ctx, n):
    """the extracted model alone: chunked vs whole on random layouts / chunkings; a difference is replayed on the code"""
    if ctx.model is None:
        return []
    rng = ctx.rng
    cases = []
    while len(cases) < n:
        c = gen_case(rng, len(cases))
        h, w = len(c['ys']), len(c['xs'])
        if h > 8 or w > 8 or not in_domain(c) or is_fallback(c):
            continue
        cases.append(c)
    L1, L2 = [], []
    for c in cases:
        L1.append(model_line(c)[0])
        L2.append(whole_line(c))
    o1 = ctx.model.run(L1)
    o2 = ctx.model.run(L2)
    suspects = []
    for c, a, b in zip(cases, o1, o2):
        ctx.count('model-search')
        ta = a.split(' ', 2)
        if (ta[2] if len(ta) > 2 else '') != b:
            suspects.append(c)
    ctx.extra['model_search_cases'] = ctx.extra.get('model_search_cases', 0) + len(cases)
    ctx.extra['model_search_chunk_dependent'] = ctx.extra.get('model_search_chunk_dependent', 0) + len(suspects)
    return suspects


def special_cases(ctx):
    """named hard cases: 0 among target_values with coordinates at the origin (a halo filled with anything but NaN would
    add phantom targets); chunks much smaller than the halo with targets several chunks away"""
    rng = ctx.rng
    out = []
    for i in range(3):
        h, w = rng.randint(5, 9), rng.randint(5, 9)
        g = [[rng.randint(1, 9) for _ in range(w)] for _ in range(h)]
        # the zero (target) cells lie away from the origin corner
        for _ in range(rng.randint(1, 3)):
            g[rng.randint(h // 2, h - 1)][rng.randint(w // 2, w - 1)] = 0
        tv = [0.0] if i < 2 else [0.0, float(rng.randint(1, 9))]
        out.append(dict(fn='dask', layout='zero-is-target', metric='EUCLIDEAN' if i != 1 else 'MANHATTAN',
                        data=[[float(v) for v in row] for row in g], dtype=rng.choice(['float64', 'int32']),
                        xs=list(range(w)), ys=list(range(h)), cdtype='float64', ykind='asc', xkind='asc', tv=tv,
                        mode='target_values', max_distance=rng.choice([1.0, 1.5, 2.0, 3.0]),
                        chunks=[compositions_random(rng, h, 'any'), compositions_random(rng, w, 'small')],
                        scheduler='threads', only=ONLY[i % 3]))
    # 0 requested as a target on a raster that is mostly zeros: whole blocks (chunk + halo) hold nothing but zeros, and with
    # max_distance under half a cell there is no halo at all
    for i in range(2):
        h, w = rng.randint(6, 9), rng.randint(6, 9)
        g = [[0] * w for _ in range(h)]
        for _ in range(rng.randint(1, 2)):
            g[rng.randrange(h)][rng.randrange(w)] = rng.randint(1, 9)
        out.append(dict(fn='dask', layout='mostly-zeros-zero-is-target', metric='EUCLIDEAN',
                        data=[[float(v) for v in row] for row in g], dtype=rng.choice(['float64', 'int32', 'uint8']),
                        xs=list(range(w)), ys=list(range(h)), cdtype='float64', ykind='asc', xkind='asc',
                        tv=[0.0] if i == 0 else [0.0, 5.0], mode='target_values', max_distance=[0.25, 1.0][i],
                        chunks=[compositions_random(rng, h, 'small'), compositions_random(rng, w, 'small')],
                        scheduler='threads', only=ONLY[i + 1]))
    # integer raster AND integer coordinates (np.arange, as in the docstrings): the NaN halo is not representable in either
    h, w = rng.randint(4, 7), rng.randint(5, 8)
    g = c06.gen_layout(rng, h, w, 'sparse')
    out.append(dict(fn='dask', layout='integer-raster-integer-coords', metric=rng.choice(['EUCLIDEAN', 'MANHATTAN']),
                    data=[[float(v) for v in row] for row in g], dtype=rng.choice(['int32', 'int64', 'uint64']),
                    xs=list(range(w)), ys=list(range(h))[::-1] if rng.random() < 0.5 else list(range(h)), cdtype='int64',
                    ykind='int', xkind='int', tv=[], mode='default', max_distance=rng.choice([1.0, 1.5, 2.0]),
                    chunks=[compositions_random(rng, h, 'small'), compositions_random(rng, w, 'small')],
                    scheduler='threads', only=ONLY[0]))
    for i in range(2):
        h, w = 12, 16
        g = c06.gen_layout(rng, h, w, 'multi')
        cs = rng.choice([1, 2])
        k = rng.choice([4, 5])
        out.append(dict(fn='dask', layout='halo-spans-chunks', metric='EUCLIDEAN',
                        data=[[float(v) for v in row] for row in g], dtype='float64',
                        xs=[cs * j for j in range(w)], ys=[cs * j for j in range(h)][::-1] if i else [cs * j for j in range(h)],
                        cdtype='float64', ykind='desc' if i else 'asc', xkind='asc', tv=[], mode='default',
                        max_distance=float(k * cs), chunks=[[2] * (h // 2), [2] * (w // 2)] if i == 0 else
                        [[1, 2, 1, 2, 2, 1, 3], [2, 1, 1, 2, 2, 2, 2, 1, 3]],
                        scheduler='threads', only=ONLY[i % 3]))
    return out


def bigint_cases(ctx):
    """integer rasters whose ids float32 cannot tell apart (20230000 / 20230001), one of them selected through
    target_values: the Dask path must see the raster's own dtype, as the NumPy path does"""
    rng = ctx.rng
    out = []
    for i in range(2):
        h, w = rng.randint(4, 7), rng.randint(4, 8)
        g = [[20230000.0] * w for _ in range(h)]
        for _ in range(rng.randint(1, 3)):
            g[rng.randrange(h)][rng.randrange(w)] = 20230001.0
        single = i == 0
        out.append(dict(fn='dask', layout='big-integer-ids', metric='EUCLIDEAN', data=g, dtype=['int64', 'int32'][i],
                        xs=list(range(w)), ys=list(range(h)), cdtype='float64', ykind='asc', xkind='asc',
                        tv=[20230001.0], mode='target_values', max_distance='inf' if single else 2.0,
                        chunks=[[h], [w]] if single else [compositions_random(rng, h, 'small'), compositions_random(rng, w, 'small')],
                        scheduler='threads', only=ONLY[i]))
    return out


def derived_cases(ctx):
    """a Dask call on raster A followed by the same call on a raster derived from A through xarray (attrs are kept by
    assign_coords / reindex): coordinates divided by k, or a k times finer nearest-neighbour grid - the second call must
    derive its halo from B's own cell size; also A's attrs must be untouched by the call"""
    rng = ctx.rng
    out = []
    for i in range(2):
        h, w = 10, 12
        g = c06.gen_layout(rng, h, w, 'multi')
        a = dict(fn='dask-derived', layout='derived-raster', metric='EUCLIDEAN', data=[[float(v) for v in row] for row in g],
                 dtype='float64', xs=[2 * j for j in range(w)], ys=[2 * j for j in range(h)], cdtype='float64',
                 ykind='asc', xkind='asc', tv=[], mode='default', max_distance=2.0 if i == 0 else 3.0, scheduler='threads')
        derive = ['scale', 2] if i == 0 else ['finer', 2]
        out.append((a, [[5, 5], [4, 4, 4]], derive, 'proximity'))
    return out


def check_derived(ctx, items, pool):
    res = pool.map([{'op': 'dask_derived', 'case': a, 'chunks': ch, 'derive': dv, 'name': name} for a, ch, dv, name in items])
    for (a, ch, dv, name), r in zip(items, res):
        rep = dict(a, chunks=ch, derive=dv, function=name)
        ctx.case(rep)
        ctx.count('derived-raster/%s' % dv[0])
        if 'fatal' in r:
            ctx.violation('oracle', 'two-call sequence on a derived raster failed: %s' % r['fatal'], rep)
            continue
        if r['attrs_before'] != r['attrs_after']:
            ctx.violation('oracle', 'the Dask %s call changed the attrs of the caller\'s raster: %s -> %s' % (
                name, r['attrs_before'], r['attrs_after']), dict(rep, attrs_before=r['attrs_before'], attrs_after=r['attrs_after']))
        for which, d, n in (('first (original raster)', r['first'], r['first_np']),
                            ('second (raster derived by %s %s)' % (dv[0], dv[1]), r['second'], r['second_np'])):
            if not grids_equal(n['v'], d['v']):
                rr, cc, p, q = first_diff(n['v'], d['v'])
                ctx.violation('oracle', 'Dask %s, %s call: differs from NumPy at cell (%d,%d): numpy %r, dask %r '
                              '[max_distance %r]' % (name, which, rr, cc, p, q, a['max_distance']),
                              dict(rep, which=which, cell=[rr, cc], numpy=p, dask=q))
                break


def pair_cases(ctx):
    """two rasters of the same shape and chunking but different cell size, evaluated lazily and computed together"""
    rng = ctx.rng
    out = []
    for i in range(2):
        h, w = rng.randint(4, 7), rng.randint(4, 8)
        g = c06.gen_layout(rng, h, w, 'multi')
        base = dict(fn='dask-pair', layout='pair', metric='EUCLIDEAN', data=[[float(v) for v in row] for row in g],
                    dtype='float64', cdtype='float64', ykind='asc', xkind='asc', tv=[], mode='default',
                    max_distance='inf' if i == 0 else 4.0, scheduler='threads')
        a = dict(base, xs=list(range(w)), ys=list(range(h)))
        b = dict(base, xs=[3 * j for j in range(w)], ys=[2 * j for j in range(h)])
        chunks = [compositions_random(rng, h, 'small'), compositions_random(rng, w, 'small')]
        out.append((a, b, chunks, ['proximity', 'direction'][i % 2]))
    return out


def check_pairs(ctx, pairs, pool):
    reqs = []
    pairs = [tuple(p) + ('together',) if len(p) == 4 else tuple(p) for p in pairs]
    for a, b, chunks, name, mode in pairs:
        reqs.append({'op': 'numpy3', 'case': a, 'only': [name]})
        reqs.append({'op': 'numpy3', 'case': b, 'only': [name]})
        reqs.append({'op': 'dask_pair', 'case': a, 'case_b': b, 'chunks': chunks, 'name': name, 'mode': mode})
    res = pool.map(reqs)
    for i, (a, b, chunks, name, mode) in enumerate(pairs):
        ra, rb, rp = res[3 * i: 3 * i + 3]
        rep = dict(a, chunks=chunks, function=name, second_raster=dict(xs=b['xs'], ys=b['ys']), pair_mode=mode)
        ctx.case(rep)
        ctx.count('pair-%s/%s' % (mode, name))
        if 'fatal' in rp or 'pair' not in rp:
            ctx.violation('oracle', 'dask.compute(a, b) of two lazy %s results failed: %s' % (name, rp.get('fatal')), rep)
            continue
        for which, rn, got in (('first', ra, rp['pair'][0]), ('second', rb, rp['pair'][1])):
            gn, _ = c06.canon_impl(rn)
            if name not in gn:
                continue
            if not grids_equal(gn[name], got['v']):
                r, c, p, q = first_diff(gn[name], got['v'])
                ctx.violation('oracle', 'two lazy Dask %s results computed together: the %s raster differs from NumPy at cell '
                              '(%d,%d): numpy %r, dask %r' % (name, which, r, c, p, q),
                              dict(rep, which=which, cell=[r, c], numpy=p, dask=q))
                break


HALO_SIZES = [0.2, 0.1, 0.01, 0.3]


def halo_edge_case(cs, k, form, orient, b, other=None):
    """one target and one probe cell exactly k cells apart along a row (orient 'row') or a column, cell size cs along that axis,
    max_distance = k*cs (Python product, or the decimal literal), a chunk boundary after b cells between them, no other target:
    the inclusive limit max_distance == distance needs a halo of exactly k cells"""
    md = k * cs if form == 'prod' else round(k * cs, 10)
    n = 2 * k + 2           # both chunks stay at least k cells wide when the boundary is right before the probe (Dask merges
                            # chunks smaller than the halo, which would hide a halo that is one cell short)
    if other is None:
        other = next((c for c in HALO_SIZES[::-1] + [1.0] if int(md / c + 0.5) <= 3), 1.0)
    along = [j * cs for j in range(n)]
    across = [j * other for j in range(3)]
    if orient == 'row':
        data = [[0.0] * n for _ in range(3)]
        data[1][1] = 7.0
        xs, ys, chunks, probe, tgt = along, across, [[3], [b, n - b]], (1, 1 + k), (1, 1)
    else:
        data = [[0.0] * 3 for _ in range(n)]
        data[1][1] = 7.0
        xs, ys, chunks, probe, tgt = across, along, [[b, n - b], [3]], (1 + k, 1), (1, 1)
    return dict(fn='dask', layout='halo-edge-%s' % orient, metric='EUCLIDEAN', data=data, dtype='float64', xs=xs, ys=ys,
                cdtype='float64', ykind='frac', xkind='frac', tv=[], mode='default', max_distance=md, chunks=chunks,
                scheduler='threads', only=['proximity'], no_model=True, probe=list(probe), probe_target=list(tgt),
                halo_family=[cs, k, form, orient, b])


def halo_edge_family(rng, per_config_k=None, all_boundaries=False):
    """cell sizes 0.2, 0.1, 0.01, 0.3 x max_distance forms x k in 1..7 (all, or `per_config_k` drawn per configuration) x
    orientation x chunk boundary at every position between target and probe (all, or one drawn)"""
    out = []
    for ci, cs in enumerate(HALO_SIZES):
        for fi, form in enumerate(('prod', 'dec')):
            ks = list(range(1, 8)) if per_config_k is None else sorted(rng.sample(range(1, 8), per_config_k))
            for k in ks:
                orients = ['row', 'col'] if per_config_k is None else [['row', 'col'][(ci + fi + k) % 2]]
                for orient in orients:
                    # the boundary right before the probe is the one that needs the full k-cell halo
                    bs = list(range(2, k + 2)) if all_boundaries else sorted({k + 1, rng.randint(2, k + 1)}
                                                                             if per_config_k is None else {k + 1})
                    for b in bs:
                        out.append(halo_edge_case(cs, k, form, orient, b))
    return out


def check_probe(ctx, case, gn):
    """the exact answer at the probe cell of a halo-edge case, on the NumPy result (float32 rounding of the limit tolerated)"""
    (r, c), (tr, tc) = case['probe'], case['probe_target']
    xs, ys = case['xs'], case['ys']
    d = c06.true_dist(case['metric'], float(xs[c]), float(ys[r]), float(xs[tc]), float(ys[tr]))
    md = float(case['max_distance'])
    v = gn['proximity'][r][c]
    if c06.surely_within(d, md) and not c06.same(v, d):
        ctx.violation('oracle', 'NumPy proximity at the probe cell (%d,%d) is %r, the single target is at distance %r <= '
                      'max_distance %r' % (r, c, v, d, md), dict(case, cell=[r, c], numpy=v, expected=d))
    elif d > md * (1 + 3e-7) and not math.isnan(v):
        ctx.violation('oracle', 'NumPy proximity at the probe cell (%d,%d) is %r although the single target is at distance %r > '
                      'max_distance %r' % (r, c, v, d, md), dict(case, cell=[r, c], numpy=v, expected=float('nan')))


def far_origin_family(rng, full=False):
    """rasters far from the origin / not symmetric about 0 (UTM-like), x != y spacing, either orientation, and a FINITE
    max_distance at or above the true corner-to-corner extent: the documented single-block path must run (Dask == NumPy, no
    exception, one block).  The value exactly equal to the float64 diagonal is avoided (the library keeps the diagonal in
    float32, which may round up)."""
    origins = [(5e5, 4.1e6), (-3e6, -7e5), (1e3, 250.0), (5e5, -7e5), (-3e6, 250.0), (1e3, 4.1e6)]
    steps = [(1.0, 30.0), (30.0, 1.0), (0.25, 1.0), (30.0, 0.25), (1.0, 0.25), (0.25, 30.0)]
    out = []
    combos = [(o, st, d) for o in origins for st in steps for d in (0, 1, 2)] if full else \
        [(origins[i], steps[(i + rng.randrange(6)) % 6], i % 3) for i in range(6)]
    for i, ((x0, y0), (sx, sy), desc) in enumerate(combos):
        h, w = rng.randint(3, 7), rng.randint(3, 7)
        xs = [x0 + sx * j for j in range(w)]
        ys = [y0 + sy * j for j in range(h)]
        if desc >= 1:
            ys = ys[::-1]
        if desc == 2:
            xs = xs[::-1]
        metric = ['EUCLIDEAN', 'MANHATTAN'][i % 2]
        dx, dy = abs(xs[-1] - xs[0]), abs(ys[-1] - ys[0])
        diag = c06.f32(dx + dy if metric == 'MANHATTAN' else math.sqrt(dx * dx + dy * dy))
        up = float(np.nextafter(np.float32(diag), np.float32(np.inf))) * (1 + 1e-6)
        md = [up, 1.5 * diag, 10.0 * diag, 1e9][(i + (i // 4)) % 4]
        g = c06.gen_layout(rng, h, w, 'sparse')
        out.append(dict(fn='dask', layout='far-origin-single-block', metric=metric, data=[[float(v) for v in row] for row in g],
                        dtype='float64', xs=xs, ys=ys, cdtype='float64', ykind='far', xkind='far', tv=[], mode='default',
                        max_distance=md, scheduler='threads', only=[['proximity'], ['allocation'], ['direction']][i % 3],
                        no_model=True, expect_single_block=True,
                        chunks=[compositions_random(rng, h, ['small', 'ones', 'any'][i % 3]),
                                compositions_random(rng, w, ['any', 'small', 'ones'][i % 3])]))
    return out


WINDOW_CASE = dict(fn='dask', layout='heuristic-window-dependence', metric='EUCLIDEAN',
                   data=[[1., 6., 0., -3., 2., 6.], [2., 0., 5., 0., 0., 0.], [7., 4., 0., 0., 0., 0.]], dtype='int8',
                   xs=[-4, -3, -2, -1, 0, 1], ys=[0, 2, 4], cdtype='float64', ykind='asc', xkind='asc', tv=[], mode='default',
                   max_distance=2.8284271247461903, chunks=[[2, 1], [2, 4]], scheduler='threads',
                   only=['proximity', 'allocation', 'direction'])


def theme_cases(ctx):
    """appended stream (theme audit): memory layout of the array handed to dask, fractional cell sizes (oracle only),
    float32 / int32 coordinates, degenerate rasters (all NaN, 2x2 in 1-cell chunks), exact ids beyond 2**53"""
    rng = ctx.rng
    out = []
    for i, mem in enumerate(['F', 'strided']):
        h, w = rng.randint(5, 8), rng.randint(5, 8)
        g = c06.gen_layout(rng, h, w, 'multi')
        out.append(dict(fn='dask', layout='mem-' + mem, metric='EUCLIDEAN', data=[[float(v) for v in row] for row in g],
                        dtype=['float64', 'int16'][i], mem=mem, cmem=['reversed', 'strided'][i], xs=list(range(w)),
                        ys=list(range(h)), cdtype=['float64', 'float32'][i], ykind='asc', xkind='asc', tv=[], mode='default',
                        max_distance=rng.choice([1.5, 2.0]), scheduler='threads', only=['proximity'],
                        chunks=[compositions_random(rng, h, 'small'), compositions_random(rng, w, 'small')]))
    # fractional cell sizes: the halo comes from max_distance / cellsize with non-integer quotients
    for i in range(2):
        h, w = rng.randint(5, 8), rng.randint(5, 8)
        cx, cy = rng.choice([(0.25, 0.5), (2.5, 0.5), (0.1, 0.3), (1.5, 0.75)])
        g = c06.gen_layout(rng, h, w, 'multi')
        xs = [10.0 + cx * j for j in range(w)]
        ys = [-3.0 + cy * j for j in range(h)]
        if i:
            ys = ys[::-1]
        c = dict(fn='dask', layout='fractional-cells', metric=['EUCLIDEAN', 'MANHATTAN'][i],
                 data=[[float(v) for v in row] for row in g], dtype='float64', xs=xs, ys=ys, cdtype='float64',
                 ykind='frac', xkind='frac', tv=[], mode='default', max_distance=rng.choice([1.0, 2.0, 2.5]) * max(cx, cy),
                 scheduler='threads', only=[['allocation'], ['direction']][i], no_model=True,
                 chunks=[compositions_random(rng, h, 'small'), compositions_random(rng, w, 'small')])
        if not in_domain(c):                      # halo larger than the raster: the documented Dask limitation
            c['max_distance'] = 1.5 * min(cx, cy)
        out.append(c)
    nan = float('nan')
    out.append(dict(fn='dask', layout='all-nan', metric='EUCLIDEAN', data=[[nan] * 4 for _ in range(3)], dtype='float32',
                    xs=[0, 1, 2, 3], ys=[0, 1, 2], cdtype='float64', ykind='asc', xkind='asc', tv=[], mode='default',
                    max_distance=1.0, scheduler='threads', only=['proximity'], chunks=[[1, 2], [2, 2]]))
    out.append(dict(fn='dask', layout='2x2-one-cell-chunks', metric='EUCLIDEAN', data=[[0.0, 3.0], [0.0, 0.0]], dtype='float64',
                    xs=[5, 6], ys=[1, 0], cdtype='int32', ykind='desc', xkind='asc', tv=[], mode='default',
                    max_distance=1.0, scheduler='synchronous', only=['direction'], chunks=[[1, 1], [1, 1]]))
    h, w = 3, 4
    big = [[2 ** 53] * w for _ in range(h)]
    big[rng.randrange(h)][rng.randrange(w)] = 2 ** 53 + 1
    out.append(dict(fn='dask', layout='ids-beyond-2**53', metric='EUCLIDEAN', data=[[0.0] * w] * h, data_int=big, dtype='int64',
                    xs=list(range(w)), ys=list(range(h)), cdtype='float64', ykind='asc', xkind='asc', tv=[2 ** 53 + 1],
                    tv_exact=True, mode='target_values', max_distance=1.0, scheduler='threads', only=['proximity'],
                    chunks=[[2, 1], [2, 2]]))
    return out


KEY_SINGLE = 'dask-single-row-or-column-zero-division'
KEY_INTCOORDS = 'dask-integer-raster-integer-coordinates-phantom-halo-targets'


def intcoords_class(case):
    """integer-typed raster with integer-typed coordinates and a real halo (finite max_distance below the diagonal)"""
    if case.get('cdtype') != 'int64' or case.get('dtype', 'float64').startswith('float') or is_fallback(case):
        return False
    return max(py_pads(case)) > 0


def edge_cases(ctx):
    """rasters with a single row / column: NumPy works; the Dask path needs a cell size for the halo"""
    rng = ctx.rng
    out = []
    for shape in ((1, rng.randint(4, 8)), (rng.randint(4, 8), 1)):
        h, w = shape
        g = c06.gen_layout(rng, h, w, 'sparse')
        case = dict(fn='dask', layout='single-line', metric='EUCLIDEAN', data=[[float(v) for v in row] for row in g],
                    dtype='float64', xs=list(range(w)), ys=list(range(h)), cdtype='float64', ykind='asc', xkind='asc',
                    tv=[], mode='default', max_distance=1.0, chunks=[[h], [w]] if rng.random() < 0.5 else
                    [compositions_random(rng, h, 'small'), compositions_random(rng, w, 'small')],
                    scheduler='threads', only=['proximity'])
        out.append(case)
    return out


def check_edges(ctx, cases, pool):
    reqs = []
    for c in cases:
        reqs.append({'op': 'numpy3', 'case': c, 'only': c['only']})
        reqs.append({'op': 'dask3', 'case': c, 'chunks': c['chunks'], 'only': c['only']})
    res = pool.map(reqs)
    for i, case in enumerate(cases):
        ctx.case(case)
        ctx.count('edge/single-row-or-column')
        gn, en = c06.canon_impl(res[2 * i])
        gd, ed = c06.canon_impl(res[2 * i + 1])
        for name in case['only']:
            if name not in gn:
                continue            # NumPy itself refuses: not a C07 matter
            if name not in gd:
                single = (len(case['ys']) == 1 or len(case['xs']) == 1) and case.get('res') is None \
                    and not is_fallback(case) and 'ZeroDivisionError' in str(ed.get(name))
                ctx.violation('oracle', 'Dask %s raised although NumPy works: %s' % (name, ed.get(name)),
                              dict(case, function=name), key=KEY_SINGLE if single else None)
            elif not grids_equal(gn[name], gd[name]):
                r, c, p, q = first_diff(gn[name], gd[name])
                ctx.violation('oracle', 'Dask %s differs from NumPy at cell (%d,%d): numpy %r, dask %r' % (name, r, c, p, q),
                              dict(case, function=name, cell=[r, c], numpy=p, dask=q))


def run(ctx):
    n = 9 if ctx.quick() else 300
    cases = gen_cases(ctx, n)
    suspects = model_search(ctx, 1500 if ctx.quick() else 30000)
    for s in suspects[:6]:
        s['only'] = ['proximity', 'allocation', 'direction']
    pool = c06.ImplPool(NWORKERS)
    try:
        if suspects:
            ctx.notes.append('model search: %d chunk-dependent model results, replayed on the implementation' % len(suspects))
            check_cases(ctx, suspects[:6], pool)
        check_cases(ctx, special_cases(ctx) + bigint_cases(ctx) + gc_cases(ctx) + cases, pool)
        check_pairs(ctx, pair_cases(ctx), pool)
        check_derived(ctx, derived_cases(ctx), pool)
        check_edges(ctx, edge_cases(ctx), pool)
        # appended last: earlier draws stay as they were
        tc = theme_cases(ctx)
        check_cases(ctx, tc + [dict(WINDOW_CASE)], pool)
        fam = halo_edge_family(ctx.rng, per_config_k=2) if ctx.quick() else halo_edge_family(ctx.rng)
        fam += far_origin_family(ctx.rng, full=not ctx.quick())
        check_cases(ctx, fam, pool)
        check_pairs(ctx, [p + ('reverse',) for p in pair_cases(ctx)[:1]], pool)
    finally:
        pool.close()
    ctx.exhaustive = False


def search(ctx):
    model = ctx.model
    ctx.model = None
    try:
        cases = special_cases(ctx) + special_cases(ctx) + gen_cases(ctx, 60)
        pool = c06.ImplPool(NWORKERS)
        try:
            check_cases(ctx, bigint_cases(ctx) + cases, pool, use_model=False)
            check_pairs(ctx, pair_cases(ctx), pool)
            check_derived(ctx, derived_cases(ctx) + derived_cases(ctx), pool)
            check_cases(ctx, far_origin_family(ctx.rng, full=True), pool, use_model=False)
            check_cases(ctx, halo_edge_family(ctx.rng, all_boundaries=True), pool, use_model=False)
        finally:
            pool.close()
    finally:
        ctx.model = model


def replay_case(ctx, case):
    keep = {k: v for k, v in case.items() if k not in ('cell', 'numpy', 'dask', 'impl', 'model',
                                                       'model_pads', 'py_pads', '_err')}
    for row in keep['data']:
        for i, v in enumerate(row):
            if isinstance(v, str):
                row[i] = float(v)
    if isinstance(keep.get('max_distance'), str) and keep['max_distance'] != 'inf':
        keep['max_distance'] = float(keep['max_distance'])
    keep.setdefault('only', ['proximity', 'allocation', 'direction'])

    class Direct:
        def map(self, reqs):
            out = []
            for r in reqs:
                if r['op'] == 'dask_pair':
                    out.append(c06._call_pair(r['case'], r['case_b'], r['chunks'], r['name'], r.get('mode', 'together')))
                else:
                    out.append(c06._call3(r['case'], r.get('chunks') if r['op'] == 'dask3' else None, r.get('only')))
            return out
    if keep.get('fn') == 'dask-derived':
        dv = keep.pop('derive')
        ch = keep.pop('chunks')
        name = keep.pop('function', 'proximity')
        for k in ('which', 'only', 'attrs_before', 'attrs_after'):
            keep.pop(k, None)

        class D2:
            def map(self, reqs):
                return [c06._call_derived(r['case'], r['chunks'], r['derive'], r['name']) for r in reqs]
        check_derived(ctx, [(keep, ch, dv, name)], D2())
        return
    if keep.get('fn') == 'dask-pair':
        sec = keep.pop('second_raster')
        pmode = keep.pop('pair_mode', 'together')
        which = keep.pop('which', None)
        name = keep.get('function', 'proximity')
        chunks = keep['chunks']
        a = {k: v for k, v in keep.items() if k not in ('chunks', 'only')}
        b = dict(a, xs=sec['xs'], ys=sec['ys'])
        check_pairs(ctx, [(a, b, chunks, name, pmode)], Direct())
    elif keep.get('layout') == 'single-line':
        check_edges(ctx, [keep], Direct())
    else:
        check_cases(ctx, [keep], Direct())
