"""C06 — proximity, allocation, direction name one real target, never underestimated.
Correspondence: xrspatial.proximity.{proximity, allocation, direction} on the same raster vs the extracted Coq
model coq/C06/Model.v (exact integer-key instance, EUCLIDEAN and MANHATTAN); oracle: brute-force nearest target
plus "the reported allocation is a target at the reported distance and bearing", written from the property text
(all three metrics; GREAT_CIRCLE with a tolerance)."""
import json
import math
from fractions import Fraction
import os
import queue
import subprocess
import sys
import threading

import numpy as np

ID = 'C06'
RULE = ('integer-valued rasters up to 10x10 plus one of 18..30 rows/columns (every dtype Numba takes: float64/32, int8..64, uint8..64, bool; a few NaN/inf cells) with unit, non-square, '
        'descending, offset and (NumPy only) non-uniform integer coordinates; target layouts: single target at every kind '
        'of position, sparse, dense, lines/diagonals, no target, all targets, layouts on which the GDAL heuristic is inexact; '
        'targets by the default rule and by explicit target_values (list / ints / tuple / ndarray; unsorted, duplicated, absent values, 0, negative, NaN and inf entries; dimension names passed through x= / y=; max_distance None, int, huge up to 1e200; fractional / tiny / huge-offset coordinates (oracle only); incl. values float32 cannot represent: int64 ids around 2**24, '
        '0.1, 1e-50, 1e39); cells taller than wide; max_distance attained exactly (radius 2, Manhattan 3, 3-4-5) and 0 / 0.0; metrics EUCLIDEAN / MANHATTAN (compared cell by cell with '
        'the model: distance key, allocation, bearing; GREAT_CIRCLE too, through the Coq model of the metric, integer degrees); max_distance in '
        '{0, fractions of a cell, 1, sqrt2, 2, sqrt5, ..., multiples of the cell size, inf}. proximity, allocation and '
        'direction are all called on every case; plus a Dask-backed stream (non-square 1x3 cells, small chunks, finite max_distance) '
        'and short in-process call SEQUENCES (same function/metric/max_distance, same-length but different target_values, same and '
        'different raster), every call checked by the oracle. A case is non-trivial when it has at least one target and one non-target cell.')
TRUSTED = [
    'float chain -> integer keys: the code compares float32(float32(d)**2) values; the harness maps every squared '
    'distance occurring on the grid to its integer key (dx*dx+dy*dy, resp. (|dx|+|dy|)^2; GREAT_CIRCLE: the float32 distance '
    'times 2^149, computed by the Coq model itself) and checks on every EUCLIDEAN/MANHATTAN case that this map is strictly '
    'monotone on the keys of the grid, translates max_distance into the two key-space thresholds R (dist_sqr < '
    '2*max_distance**2) and M (max_distance**2 >= dist_sqr) by evaluating the float chain (GREAT_CIRCLE: by bisection over '
    'the float32 numbers), and passes the set of keys on which float32(lp*lp) rounds above lp**2 (tie_up, empty with '
    'Numba\'s typing) to the model; the Coq theorems hold for every tie_up, R, M',
    'libm: atan2 (bearing) and sin, cos, asin (GREAT_CIRCLE) are Section variables of the Coq models; the OCaml driver passes '
    'Stdlib.atan2/sin/cos/asin (bit-identical here with the libm Numba calls: the three outputs are compared bit for bit). '
    'Premises used by the theorems, all stated as hypotheses: C99 Annex F values of atan2 on the axes (atan2(+-0, x>0) = +-0, '
    'atan2(+-0, x<0) = +-pi, atan2(y>0, +-0) = pi/2, atan2(y<0, +-0) = -pi/2, with the doubles nearest pi, pi/2) for '
    'C06_bearing_axes; atan2 of finite arguments is finite with |.| <= the double nearest pi for C06_bearing_range / '
    'C06_bearing_zero_iff_self; sin 0 = 0, asin 0 = 0, cos of a finite argument finite with |.| <= 1 for '
    'C06_great_circle_key_self0 (satisfiable: Examples C06_bearing_premises_satisfiable, C06_great_circle_premises_satisfiable)',
    'axioms reported for the float theorems: the PrimFloat / PrimInt63 primitives and their FloatAxioms specifications; '
    'C06_bearing_range, C06_bearing_zero_iff_self and C06_great_circle_key_self0 additionally use Flocq and the axioms of the '
    'Coq Reals library (ClassicalDedekindReals.sig_forall_dec, sig_not_dec, functional_extensionality_dep)',
    'integer-typed coordinate arrays reach atan2 with +0 where the float model has -0 (the sign of a zero offset): both give '
    'the same float32 bearing (checked by correspondence with int64 coordinates), only the float path is modelled',
    'np.radians is x * (pi/180) (Numba lowering), float64 ** 2 is x*x; prange inside the non-parallel @ngjit kernels is a '
    'sequential range (modelled as such)',
]
ASSUMPTIONS = ['NumPy backend (Dask is C07); 2-D raster with dims (y, x); coordinates finite; the exact-instance model '
               'covers integer coordinates (any integer cell size, either orientation; integer degrees inside '
               '[-180,180]x[-90,90] for GREAT_CIRCLE); max_distance >= 0 or None (a negative max_distance acts as its absolute value in the code and is outside the domain); at least one row and one column (an empty raster raises IndexError); float16 rasters are rejected by Numba (NotImplementedError); direction 0 and 360 are the same compass direction: a target '
               'within a few ulps of due north may be reported as 0 (rounding at the seam)']
PARTIAL = [
    'C06_exact_full_statement (proximity equals the exact nearest-target distance for every layout) is NOT claimed: the '
    'algorithm is GDAL\'s heuristic and overestimates on some larger layouts (witness: Example C06_not_exact_witness); '
    'exactness is proved for a single target (C06_single_target_exact, unbounded max_distance) and, by vm_compute, for every target '
    'layout on every grid up to 3x4 with unit cells (C06_bounded_exact_small); beyond that it is checked by the oracle as '
    '"never underestimated"',
    'single target with a FINITE max_distance: that every cell within max_distance is reached is checked by the oracle and '
    'by C06_bounded_exact_small (M in {1,2,4}), not proved for all sizes',
    'direction in (0, 360] / direction = 0 iff self: proved except when atan2(-dy, dx) * 57.29578 is exactly 90.0 in binary64 '
    '(then a non-self target that is due north up to ~1.5e-6 degrees gets 0 instead of 360 - the same compass direction, '
    'floating-point rounding at the 0/360 seam: Example C06_bearing_zero_nonself_witness documents it, the oracle accepts 0 '
    'there and only there); between the axes the bearing VALUE is whatever libm atan2 returns - proved: which target it is '
    'taken to, the axis values, the range; checked bit for bit against the implementation',
    'GREAT_CIRCLE: covered by every theorem that is generic in the metric key (named target, never underestimated, NaN '
    'consistency, NaN beyond max_distance, no NaN when unbounded, single target exact, direction names the same target) - '
    'their only premise on the metric, key_self0_on, is proved for the GREAT_CIRCLE key from libm premises '
    '(C06_great_circle_key_self0); C06_prox_zero_iff_target additionally needs key_pd (distance 0 only between identical '
    'coordinates), which for GREAT_CIRCLE would need accuracy/monotonicity assumptions about sin, cos, asin and is NOT claimed '
    '(oracle-checked); C06_bounded_exact_small is EUCLIDEAN only',
]
LEVEL_TEXT = ('Proved in Coq for all grid sizes, all target layouts, all thresholds (max_distance), EVERY metric key (a function '
              'of the four coordinates: EUCLIDEAN, MANHATTAN and GREAT_CIRCLE are instances) and all coordinates: every non-NaN '
              'cell remembers a real target cell, its distance is the distance to exactly that cell, allocation is that '
              'cell\'s value and direction is _calc_direction (modelled in binary64/binary32 with libm atan2 a parameter) of '
              'the offset to that same cell; distance <= max_distance and never below the true nearest; NaN in one output iff '
              'in all; no target within max_distance => NaN; >= 1 target and unbounded => no NaN; single target => exact; '
              'proximity 0 iff target (metrics with key_pd: EUCLIDEAN, MANHATTAN). Bearing, from explicit libm premises: 0 for '
              'self, exactly 90/180/270/360 along +x/+y/-x/-y, in [0,360] and > 0 unless atan2*57.29578 == 90.0 exactly '
              '(rounding at the 0/360 seam, documented by a witness). GREAT_CIRCLE: the key model is bit-exact with _distance; key_self0 proved from '
              'sin 0 = 0, asin 0 = 0, |cos| <= 1; key_pd not claimed. Bounded (vm_compute): exactness for every layout on grids '
              'up to 3x4, unit cells, EUCLIDEAN, max_distance in {1, sqrt2, 2, inf}; exactness on larger grids is refuted by '
              'a witness. Correspondence: the three public functions vs the extracted model cell by cell, bit for bit, for all '
              'three metrics (distance key, allocation, bearing).')
LEVEL_NOTE = ('The sweep model works on integer distance keys; the harness checks per case that the code\'s float32 '
              'distance chain is strictly monotone in the key and translates max_distance / float32 tie rounding into '
              'model parameters (the theorems hold for all values of those parameters). The bearing and the GREAT_CIRCLE metric '
              'are PrimFloat/SpecFloat models with libm functions as parameters; their theorems state the libm premises '
              'explicitly (Flocq + Coq Reals axioms for the range results). Numba compilation and xarray coordinate handling '
              'are trusted.')

NWORKERS = 6
OCAML_PACKAGES = ['coq-core.kernel']     # the bearing model uses PrimFloat
OCAML_FLAGS = '-rectypes -thread'
INF = float('inf')


# ----------------------------------------------------------------------------------------------
# implementation side: long-lived worker processes (each public call re-JITs an inner closure)
# ----------------------------------------------------------------------------------------------
def case_tv(case):
    """target_values as the oracle / model see them: exact Python ints when the case asks for it (ids beyond 2**53)"""
    if case.get('tv_exact'):
        return [int(v) for v in case.get('tv', [])]
    return [float(v) for v in case.get('tv', [])]


def _mem_layout(a, mem):
    """the same logical array in another memory layout"""
    if mem == 'F':
        return np.asfortranarray(a)
    if mem == 'T':
        return np.ascontiguousarray(a.T).T                      # transposed view
    if mem == 'strided':
        big = np.zeros(tuple(n * k for n, k in zip(a.shape, (2, 3)[:a.ndim])), dtype=a.dtype)
        sl = tuple(slice(None, None, k) for k in (2, 3)[:a.ndim])
        big[sl] = a
        return big[sl]
    if mem == 'reversed':
        rev = tuple(slice(None, None, -1) for _ in range(a.ndim))
        return a[rev].copy()[rev]
    if mem == 'readonly':
        a = a.copy()
        a.setflags(write=False)
        return a
    return a


def _build_raster(case, dask_chunks=None):
    import xarray as xr
    dtype = case.get('dtype', 'float64')
    if case.get('data_int') is not None:
        a = np.array(case['data_int'], dtype=dtype)            # exact integers (beyond 2**53)
    else:
        a = np.array(case['data'], dtype='float64')
        if not dtype.startswith('float'):
            a = np.nan_to_num(a)
        a = a.astype(dtype)
    a = _mem_layout(a, case.get('mem'))
    ys = _mem_layout(np.array(case['ys'], dtype=case.get('cdtype', 'float64')), case.get('cmem'))
    xs = _mem_layout(np.array(case['xs'], dtype=case.get('cdtype', 'float64')), case.get('cmem'))
    if dask_chunks is not None:
        import dask.array as da
        a = da.from_array(a, chunks=(tuple(dask_chunks[0]), tuple(dask_chunks[1])))
    yn, xn = case.get('dims', ['y', 'x'])
    r = xr.DataArray(a, dims=[yn, xn], coords={yn: ys, xn: xs})
    if case.get('res') is not None:
        r.attrs['res'] = tuple(case['res']) if isinstance(case['res'], list) else case['res']
    return r


def _snapshot(r, dask_chunks):
    """what the caller handed in: data bytes (computed for Dask), coordinate bytes, attrs, dims"""
    d = np.asarray(r.data.compute() if dask_chunks is not None else r.data)
    return (d.tobytes() + str(d.dtype).encode(), tuple((k, np.asarray(v.values).tobytes()) for k, v in sorted(r.coords.items())),
            repr(sorted(r.attrs.items(), key=lambda kv: str(kv[0]))), tuple(r.dims))


def _call3(case, dask_chunks=None, only=None):
    import importlib
    P = importlib.import_module('xrspatial.proximity')
    md = case['max_distance']
    md = INF if md in ('inf', None) else float(md)
    if case.get('md_int') and md != INF:
        md = int(md)
    if case['max_distance'] is None:
        md = None                                   # documented: None means unbounded
    tv = list(case.get('tv', []))
    kind = case.get('tv_kind', 'list')
    if case.get('tv_exact'):
        tv, kind = [int(v) for v in tv], 'list'
    mk = case.get('md_kind')
    if mk and md is not None:
        md = {'np.float32': np.float32, 'np.float64': np.float64, 'np.int64': np.int64, 'np.int32': np.int32}[mk](md)
    if kind == 'ints' and all(float(v) == int(v) for v in tv if not (math.isnan(v) or math.isinf(v))) \
            and not any(math.isnan(v) or math.isinf(v) for v in tv):
        tv = [int(v) for v in tv]
    elif kind == 'tuple':
        tv = tuple(tv)
    elif kind == 'ndarray':
        tv = np.array(tv, dtype='float64')
    kw = {}
    if case.get('dims'):
        kw = dict(y=case['dims'][0], x=case['dims'][1])
    out = {}
    for name in ('proximity', 'allocation', 'direction'):
        if only and name not in only:
            continue
        r = _build_raster(case, dask_chunks)
        snap = _snapshot(r, dask_chunks)
        try:
            res = getattr(P, name)(r, target_values=tv, max_distance=md,
                                   distance_metric=case.get('metric', 'EUCLIDEAN'), **kw)
            v = res.data
            if dask_chunks is not None:
                if case.get('scheduler'):
                    v = v.compute(scheduler=case['scheduler'])
                else:
                    v = v.compute()
            nb = list(res.data.numblocks) if dask_chunks is not None else None
            v = np.asarray(v)
            out[name] = {'dtype': str(v.dtype), 'v': [[float(x) for x in row] for row in v.tolist()]}
            if nb is not None:
                out[name]['numblocks'] = nb
            changed = [k for k, (b, a2) in zip(('data', 'coords', 'attrs', 'dims'), zip(snap, _snapshot(r, dask_chunks)))
                       if b != a2]
            if changed:
                out[name]['mutated'] = changed
        except Exception as e:  # reported to the caller, decided there
            out[name] = {'error': '%s: %s' % (type(e).__name__, str(e)[:300])}
    return out


def _call_pair(case_a, case_b, chunks, name, mode='together'):
    """two lazy Dask results computed TOGETHER (dask.compute(a, b)): graph keys of different rasters must not collide"""
    import importlib
    import dask
    P = importlib.import_module('xrspatial.proximity')
    lazies = []
    for case in (case_a, case_b):
        md = case['max_distance']
        md = INF if md in ('inf', None) else float(md)
        r = _build_raster(case, chunks)
        lazies.append(getattr(P, name)(r, target_values=list(case.get('tv', [])), max_distance=md,
                                       distance_metric=case.get('metric', 'EUCLIDEAN')).data)
    if mode == 'reverse':
        # lazy results computed one by one, the later one first, only after both have been built
        vals = [None, None]
        vals[1] = lazies[1].compute()
        vals[0] = lazies[0].compute()
    else:
        vals = dask.compute(*lazies)
    return {'pair': [{'dtype': str(np.asarray(v).dtype), 'v': [[float(x) for x in row] for row in np.asarray(v).tolist()]}
                     for v in vals]}


def _call_seq(steps):
    """an in-process SEQUENCE of calls (same worker, in order): [{'case':..., 'only': [...], 'chunks': optional}]"""
    return {'seq': [_call3(st['case'], st.get('chunks'), st.get('only')) for st in steps]}


def _grid(v):
    v = np.asarray(v)
    return {'dtype': str(v.dtype), 'v': [[float(x) for x in row] for row in v.tolist()]}


def _call_derived(case, chunks, derive, name):
    """first a Dask call on raster A, then the same call on a raster DERIVED from A through xarray (attrs travel along);
    NumPy results of both for comparison; A's attrs before/after the call"""
    import importlib
    P = importlib.import_module('xrspatial.proximity')
    md = case['max_distance']
    md = INF if md in ('inf', None) else float(md)
    kw = dict(target_values=list(case.get('tv', [])), max_distance=md, distance_metric=case.get('metric', 'EUCLIDEAN'))
    fn = getattr(P, name)
    a_d = _build_raster(case, chunks)
    a_n = _build_raster(case, None)
    before = repr(sorted(a_d.attrs.items(), key=lambda kv: str(kv[0])))
    out = {'first': _grid(fn(a_d, **kw).data.compute()), 'first_np': _grid(fn(a_n, **kw).data)}
    out['attrs_before'] = before
    out['attrs_after'] = repr(sorted(a_d.attrs.items(), key=lambda kv: str(kv[0])))

    def dv(r):
        if derive[0] == 'scale':                      # same cells, coordinates divided by k (e.g. m -> km)
            k = float(derive[1])
            return r.assign_coords(x=r['x'] / k, y=r['y'] / k)
        if derive[0] == 'finer':                      # k times finer grid by nearest-neighbour reindex
            k = int(derive[1])
            xs = r['x'].values
            ys = r['y'].values
            nx = np.linspace(xs[0], xs[-1], (len(xs) - 1) * k + 1)
            ny = np.linspace(ys[0], ys[-1], (len(ys) - 1) * k + 1)
            return r.reindex(x=nx, y=ny, method='nearest')
        raise ValueError(derive)
    b_d = dv(a_d)
    if hasattr(b_d.data, 'chunks') and derive[0] == 'finer':
        b_d = b_d.chunk({'y': max(1, b_d.shape[0] // 2), 'x': max(1, b_d.shape[1] // 3)})
    b_n = dv(a_n)
    b_n.attrs = {}
    out['second'] = _grid(fn(b_d, **kw).data.compute())
    out['second_np'] = _grid(fn(b_n, **kw).data)
    return out


def worker_main():
    import warnings
    warnings.filterwarnings('ignore')
    for line in sys.stdin:
        line = line.strip()
        if not line:
            continue
        req = json.loads(line)
        try:
            if req['op'] == 'numpy3':
                res = _call3(req['case'], None, req.get('only'))
            elif req['op'] == 'dask3':
                res = _call3(req['case'], req['chunks'], req.get('only'))
            elif req['op'] == 'seq':
                res = _call_seq(req['steps'])
            elif req['op'] == 'dask_derived':
                res = _call_derived(req['case'], req['chunks'], req['derive'], req['name'])
            elif req['op'] == 'dask_pair':
                res = _call_pair(req['case'], req['case_b'], req['chunks'], req['name'], req.get('mode', 'together'))
            else:
                res = {'fatal': 'unknown op'}
        except Exception as e:
            res = {'fatal': '%s: %s' % (type(e).__name__, e)}
        sys.stdout.write(json.dumps(res) + '\n')
        sys.stdout.flush()


class ImplPool:
    """<= 6 long-lived worker processes; requests are JSON lines."""

    def __init__(self, n=NWORKERS):
        env = dict(os.environ)
        env.setdefault('NUMBA_DISABLE_PERFORMANCE_WARNINGS', '1')
        self.procs = []
        code = ('import sys, warnings; warnings.filterwarnings("ignore"); '
                'from harness.props import c06; c06.worker_main()')
        for _ in range(n):
            self.procs.append(subprocess.Popen([sys.executable, '-c', code], stdin=subprocess.PIPE,
                                               stdout=subprocess.PIPE, stderr=subprocess.DEVNULL, env=env))

    def map(self, reqs):
        """reqs: list of JSON-able requests -> list of results, same order."""
        q = queue.Queue()
        for i, r in enumerate(reqs):
            q.put((i, r))
        res = [None] * len(reqs)

        def feed(p):
            while True:
                try:
                    i, r = q.get_nowait()
                except queue.Empty:
                    return
                try:
                    p.stdin.write((json.dumps(r) + '\n').encode())
                    p.stdin.flush()
                    line = p.stdout.readline()
                    res[i] = json.loads(line) if line else {'fatal': 'worker died'}
                except Exception as e:
                    res[i] = {'fatal': 'worker: %s' % e}
                    return
        ths = [threading.Thread(target=feed, args=(p,)) for p in self.procs]
        for t in ths:
            t.start()
        for t in ths:
            t.join()
        for i in range(len(res)):
            if res[i] is None:
                res[i] = {'fatal': 'no worker available'}
        return res

    def close(self):
        for p in self.procs:
            try:
                p.stdin.close()
            except Exception:
                pass
        for p in self.procs:
            try:
                p.wait(timeout=10)
            except Exception:
                p.kill()


# ----------------------------------------------------------------------------------------------
# float chain <-> integer keys (see TRUSTED)
# ----------------------------------------------------------------------------------------------
def f32(x):
    return float(np.float32(x))


def key_of(metric, dx, dy):
    if metric == 'MANHATTAN':
        return (abs(dx) + abs(dy)) ** 2
    return dx * dx + dy * dy


def dist32_of_key(metric, k):
    """np.float32(d) of the code for a squared-distance key"""
    if metric == 'GREAT_CIRCLE':
        return float(Fraction(k, 2 ** 149))
    if metric == 'MANHATTAN':
        return f32(float(math.isqrt(k)))
    return f32(math.sqrt(float(k)))


def grid_keys(metric, xs, ys):
    dxs = sorted({int(a - b) for a in xs for b in xs})
    dys = sorted({int(a - b) for a in ys for b in ys})
    return sorted({key_of(metric, dx, dy) for dx in dxs for dy in dys})


_KEYMEMO = {}


def _f32_from_bits(b):
    return float(np.array([b], dtype=np.uint32).view(np.float32)[0])


def gc_key_of_f32(d):
    """the GREAT_CIRCLE key of the model (coq/C06/Metric.v): the float32 distance times 2^149"""
    return int(Fraction(d) * 2 ** 149)


def gc_thresholds(md):
    """(R, M) tokens for GREAT_CIRCLE: smallest float32 distance d with not float32(d**2) < 2*md**2, largest with
    md*md >= float32(d**2); found by bisection over the (ordered) non-negative float32 numbers"""
    if md == INF:
        return 'inf', 'inf'

    def g(b):
        d = np.float32(_f32_from_bits(b))
        with np.errstate(over='ignore'):
            return float(d * d)
    with np.errstate(over='ignore'):
        md2x2 = float(np.float64(md) ** 2 * 2.0)
        md2 = float(np.float64(md) * np.float64(md))
    top = 0x7f800000                        # +inf
    lo, hi = 0, top                         # first b with not g(b) < 2 md^2
    while lo < hi:
        mid = (lo + hi) // 2
        if g(mid) < md2x2:
            lo = mid + 1
        else:
            hi = mid
    R = from_int_tok(gc_key_of_f32(_f32_from_bits(lo))) if lo < top else 'inf'
    lo, hi = -1, top - 1                    # last b with md*md >= g(b)
    while lo < hi:
        mid = (lo + hi + 1) // 2
        if md2 >= g(mid):
            lo = mid
        else:
            hi = mid - 1
    M = from_int_tok(gc_key_of_f32(_f32_from_bits(lo))) if lo >= 0 else '-1'
    return R, M


def from_int_tok(n):
    from harness import xvio
    return xvio.tok_int(n)


def _key_chain(metric, k):
    """(float32 distance, dist_sqr = float32(dist**2), float32(sqrt(dist_sqr)), float32 product lp*lp) of one key"""
    m = _KEYMEMO.get((metric, k))
    if m is None:
        d = dist32_of_key(metric, k)
        # Numba types float32 ** 2 (literal exponent) as float32: dist_sqr = float32(dist*dist); the other side of the
        # tie comparison, line_proximity*line_proximity, is the float32 product of float32(sqrt(dist_sqr)) with itself
        g = float(np.float32(d) ** 2)
        lpv = np.float32(math.sqrt(g))
        hh = float(lpv * lpv)
        m = (d, g, float(lpv), hh)
        _KEYMEMO[(metric, k)] = m
    return m


def key_params(metric, xs, ys, md):
    """-> (R token, M token, tie list) or raises ValueError when the float chain is not order-isomorphic to the keys"""
    K = grid_keys(metric, xs, ys)
    ch = {k: _key_chain(metric, k) for k in K}
    g = {k: ch[k][1] for k in K}
    hh = {k: ch[k][3] for k in K}
    for k in K:
        if ch[k][2] != ch[k][0]:
            raise ValueError('sqrt(dist_sqr) does not give the float32 distance back for key %d' % k)
    for a, b in zip(K, K[1:]):
        if not (g[a] < g[b] and g[a] < hh[b] and not (g[b] < hh[a])):
            raise ValueError('float chain not strictly monotone on keys %d,%d' % (a, b))
    ties = [k for k in K if g[k] < hh[k]]
    if md == INF:
        return 'inf', 'inf', ties
    with np.errstate(over='ignore'):
        md2x2 = float(np.float64(md) ** 2 * 2.0)
        md2 = float(np.float64(md) * np.float64(md))
    r_ok = [g[k] < md2x2 for k in K]
    m_ok = [md2 >= g[k] for k in K]
    for flags in (r_ok, m_ok):
        if any((not a) and b for a, b in zip(flags, flags[1:])):
            raise ValueError('threshold not a prefix')
    failing = [k for k, ok in zip(K, r_ok) if not ok]
    R = str(failing[0]) if failing else str(K[-1] + 1)
    passing = [k for k, ok in zip(K, m_ok) if ok]
    M = str(passing[-1]) if passing else '-1'
    return R, M, ties


def xv_tokens(case):
    """(target_values tokens, cell tokens row-major): finite values of one case are embedded into Z by a common
    power-of-two scale (exact, order preserving; the target test only compares values)"""
    from harness import xvio
    data = cast_data(case)
    tv = case_tv(case)
    s = xvio.scale_for([v for row in data for v in row] + tv)
    return [xvio.tok(v, s) for v in tv], [xvio.tok(v, s) for row in data for v in row]


def model_line(case):
    metric = case.get('metric', 'EUCLIDEAN')
    md = case['max_distance']
    md = INF if md in ('inf', None) else float(md)
    xs = [int(v) for v in case['xs']]
    ys = [int(v) for v in case['ys']]
    if metric == 'GREAT_CIRCLE':
        R, M = gc_thresholds(md)
        ties = []
    else:
        R, M, ties = key_params(metric, xs, ys, md)
    data = cast_data(case)
    h = len(data)
    w = len(data[0]) if h else 0
    tvt, cellt = xv_tokens(case)
    return 'proxd %d %d %s %s %s %d %s %d %s %d %s %d %d %s' % (
        {'MANHATTAN': 2, 'GREAT_CIRCLE': 1}.get(metric, 0), len(ties), ' '.join(map(str, ties)), R, M,
        len(xs), ' '.join(map(str, xs)), len(ys), ' '.join(map(str, ys)),
        len(tvt), ' '.join(tvt), h, w, ' '.join(cellt))


def cast_data(case):
    """cell values as the implementation sees them after the dtype cast (floats; exact ints for data_int cases)"""
    if case.get('data_int') is not None:
        return [[int(v) for v in row] for row in np.array(case['data_int'], dtype=case.get('dtype', 'int64')).tolist()]
    a = np.array(case['data'], dtype='float64')
    dtype = case.get('dtype', 'float64')
    if not dtype.startswith('float'):
        a = np.nan_to_num(a)
    a = a.astype(dtype)
    return [[float(v) for v in row] for row in a.tolist()]


def calc_direction(x1, x2, y1, y2):
    """transcription of proximity._calc_direction (float64 arithmetic, float32 result)"""
    if x1 == x2 and y1 == y2:
        return 0.0
    x = x2 - x1
    y = y2 - y1
    d = math.atan2(-y, x) * 57.29578
    if d < 0:
        d = 90.0 - d
    elif d > 90.0:
        d = 360.0 - d + 90.0
    else:
        d = 90.0 - d
    return f32(d)


def same(a, b):
    if isinstance(a, float) and math.isnan(a):
        return isinstance(b, float) and math.isnan(b)
    return a == b


def model_bearings(quads):
    """_calc_direction of (x1, x2, y1, y2) quadruples through the extracted Coq model (coq/C06/Bearing.v, op `bearing` of
    the C06 driver); falls back to the Python transcription only if that driver has not been built"""
    if not quads:
        return []
    exe = os.path.join(os.path.dirname(os.path.dirname(os.path.dirname(os.path.abspath(__file__)))), 'build', 'c06', 'driver')
    if os.path.exists(exe):
        line = 'bearing %d %s\n' % (len(quads), ' '.join(float(v).hex() for q in quads for v in q))
        p = subprocess.run([exe], input=line.encode(), stdout=subprocess.PIPE, stderr=subprocess.PIPE, timeout=600)
        t = p.stdout.decode().split()
        if len(t) == len(quads) and not (t and t[0] == 'ERR'):
            return [float('nan') if x == 'nan' else float.fromhex(x) for x in t]
        raise ValueError('bearing op of the C06 driver failed: %s' % p.stdout.decode()[:100])
    return [calc_direction(*q) for q in quads]


def expected_from_model(case, mo, per=4):
    """model output line -> (prox, alloc, dirn) grids of floats; per=4: `proxd` output (key row col direction),
    per=3: key row col only (C07 driver) - the direction then comes from the extracted bearing model"""
    metric = case.get('metric', 'EUCLIDEAN')
    data = cast_data(case)
    h = len(data)
    w = len(data[0]) if h else 0
    t = mo.split()
    if len(t) != per * h * w:
        raise ValueError('model returned %d tokens for %dx%d' % (len(t), h, w))
    xs = [float(v) for v in case['xs']]
    ys = [float(v) for v in case['ys']]
    P, A, D = [], [], []
    quads, where = [], []
    for r in range(h):
        pr, ar, dr = [], [], []
        for c in range(w):
            o = per * (r * w + c)
            k, tr, tc = (int(x, 0) for x in t[o: o + 3])
            pr.append(float('nan') if k == -1 else (INF if k == -2 else dist32_of_key(metric, k)))
            if tr < 0:
                ar.append(float('nan'))
                dr.append(float('nan'))
            else:
                ar.append(f32(data[tr][tc]))
                if per == 4:
                    dr.append(float('nan') if t[o + 3] == 'nan' else float.fromhex(t[o + 3]))
                else:
                    dr.append(None)
                    quads.append((xs[c], xs[tc], ys[r], ys[tr]))
                    where.append((r, c))
        P.append(pr)
        A.append(ar)
        D.append(dr)
    for (r, c), b in zip(where, model_bearings(quads)):
        D[r][c] = b
    return P, A, D


def compare_model(ctx, case, impl, mo, what='numpy', per=4):
    """impl: {'proximity': grid, 'allocation': grid, 'direction': grid} of floats"""
    try:
        P, A, D = expected_from_model(case, mo, per)
    except Exception as e:
        ctx.violation('correspondence', '%s: model output unusable: %s (%s)' % (what, e, mo[:80]), case)
        return False
    for name, exp in (('proximity', P), ('allocation', A), ('direction', D)):
        got = impl.get(name)
        if got is None:
            continue
        for r, (ge, ee) in enumerate(zip(got, exp)):
            for c, (gv, ev) in enumerate(zip(ge, ee)):
                if not same(gv, ev):
                    ctx.violation('correspondence', '%s %s: implementation %r vs model %r at cell (%d,%d)' % (
                        what, name, gv, ev, r, c), dict(case, function=name, cell=[r, c], impl=gv, model=ev))
                    return False
    return True


# ----------------------------------------------------------------------------------------------
# oracle (from the property text; independent of the model)
# ----------------------------------------------------------------------------------------------
def is_target_val(v, tv):
    if tv:
        return any(v == t for t in tv)
    return v != 0 and not math.isnan(v) and not math.isinf(v)


def true_dist(metric, x1, y1, x2, y2):
    """distance as the property means it, rounded once to float32 (the output dtype)"""
    dx, dy = x1 - x2, y1 - y2
    if metric == 'MANHATTAN':
        return f32(abs(dx) + abs(dy))
    if metric == 'GREAT_CIRCLE':
        la1, lo1, la2, lo2 = (math.radians(v) for v in (y1, x1, y2, x2))
        a = math.sin((la2 - la1) / 2.0) ** 2 + math.cos(la1) * math.cos(la2) * math.sin((lo2 - lo1) / 2.0) ** 2
        return f32(6378137 * 2 * math.asin(math.sqrt(a)))
    return f32(math.sqrt(dx * dx + dy * dy))


def compass(x1, y1, x2, y2):
    """0 = self, 90 east (+x), 180 south (+y), 270 west, 360 north (-y)"""
    if x1 == x2 and y1 == y2:
        return 0.0
    b = math.degrees(math.atan2(x2 - x1, -(y2 - y1))) % 360.0
    return 360.0 if b == 0.0 else b


def square_cells(xs, ys):
    """uniform spacing, the same on both axes (either orientation)"""
    d = {abs(b - a) for a, b in zip(xs, xs[1:])} | {abs(b - a) for a, b in zip(ys, ys[1:])}
    return len(d) <= 1


def dir0_case():
    """2x2 raster, x = [0, 1.3349124533715719e-08], y = [0, 1], target at (0,1): for cell (1,0)
    atan2(1, 1.33e-8) * 57.29578 is exactly 90.0, so _calc_direction returns 90.0 - 90.0 = 0 for a non-self target that is
    due north up to 1.5e-6 degrees: rounding at the 0/360 seam, accepted by the oracle (see PARTIAL), not a finding"""
    return dict(fn='numpy3', layout='direction-zero-corner', metric='EUCLIDEAN', data=[[0.0, 1.0], [0.0, 0.0]], dtype='float64',
                xs=[0.0, 1.3349124533715719e-08], ys=[0.0, 1.0], cdtype='float64', ykind='unit', xkind='tiny', tv=[],
                mode='default', max_distance='inf', no_model=True)


def sq_underflows(d):
    """the code works with float32(d**2): below ~3.7e-23 that is 0 and the reported distance is sqrt(0) = 0 - e.g. GREAT_CIRCLE
    between two longitudes of a pole row, or between lon -180 and lon 180 (the same point)"""
    return d is not None and float(np.float32(d) * np.float32(d)) == 0.0


def surely_within(dist, md):
    """dist (a float32 distance) is within max_distance beyond any float32 rounding doubt: clearly below it, or exactly
    equal with an exactly representable square (so dist**2 <= max_distance**2 holds in every precision)"""
    if dist * (1 + 3e-7) <= md:
        return True
    return dist == md and float(np.float32(dist) * np.float32(dist)) == dist * dist


def oracle_partial(ctx, case, impl, what):
    """the same statement when only some of the three outputs were computed: every output separately against the brute-force
    nearest target (value / distance / bearing of SOME target at the reported distance or nearer-than-max), NaN handling"""
    metric = case.get('metric', 'EUCLIDEAN')
    md = case['max_distance']
    md = INF if md in ('inf', None) else float(md)
    data = cast_data(case)
    tv = case_tv(case)
    xs = [float(v) for v in case['xs']]
    ys = [float(v) for v in case['ys']]
    h, w = len(data), len(data[0])
    targets = [(r, c) for r in range(h) for c in range(w) if is_target_val(data[r][c], tv)]
    names = [n for n in ('proximity', 'allocation', 'direction') if n in impl]

    def bad(msg, r, c):
        ctx.violation('oracle', '%s: %s at cell (%d,%d) [metric %s, max_distance %r, target_values %r]' % (
            what, msg, r, c, metric, case['max_distance'], case.get('tv')),
            dict(case, cell=[r, c], **{n: impl[n][r][c] for n in names}))
        return False
    for r in range(h):
        for c in range(w):
            vals = {n: impl[n][r][c] for n in names}
            nans = [math.isnan(v) for v in vals.values()]
            if any(nans) and not all(nans):
                return bad('NaN in some but not all outputs %r' % vals, r, c)
            ds = [(true_dist(metric, xs[c], ys[r], xs[tc], ys[tr]), tr, tc) for tr, tc in targets]
            nearest = min(x[0] for x in ds) if ds else None
            tgt = (r, c) in targets
            if all(nans):
                if targets and md == INF:
                    return bad('NaN although the raster has a target and max_distance is unbounded', r, c)
                for dist, tr, tc in ds:
                    if surely_within(dist, md) and (len(targets) == 1 or tr == r or tc == c):
                        return bad('target (%d,%d) at distance %r <= max_distance but the cell is NaN' % (tr, tc, dist), r, c)
                continue
            if nearest is None or nearest > max(md, f32(md)):
                return bad('no target within max_distance but the outputs are %r' % vals, r, c)
            inrange = [(dist, tr, tc) for dist, tr, tc in ds if dist <= max(md, f32(md))]
            if 'proximity' in vals:
                p = vals['proximity']
                if (p == 0.0) != tgt and not (p == 0.0 and sq_underflows(nearest)):
                    return bad('proximity %r on a %s cell' % (p, 'target' if tgt else 'non-target'), r, c)
                if p == 0.0 and not tgt:
                    inrange = [x for x in inrange if sq_underflows(x[0])]
                    p = None
                elif p < nearest or p > max(md, f32(md)) or not any(dist == p for dist, _, _ in ds):
                    return bad('proximity %r is not the distance to a target within max_distance (nearest %r)' % (p, nearest), r, c)
                if p is not None:
                    inrange = [x for x in inrange if x[0] == p]
            if 'allocation' in vals and not any(same(f32(data[tr][tc]), vals['allocation']) for _, tr, tc in inrange):
                return bad('allocation %r is not the value of a target at the reported distance / within max_distance'
                           % vals['allocation'], r, c)
            if 'direction' in vals:
                d = vals['direction']
                if tgt and d != 0.0:
                    return bad('target cell has direction %r' % d, r, c)
                if not tgt and not any(abs(compass(xs[c], ys[r], xs[tc], ys[tr]) - d) <= 1e-3 and
                                       ('allocation' not in vals or same(f32(data[tr][tc]), vals['allocation']))
                                       for _, tr, tc in inrange):
                    return bad('direction %r is not the bearing to a target at the reported distance / within max_distance' % d, r, c)
            if len(targets) == 1 and 'proximity' in vals and vals['proximity'] != nearest and \
                    not (vals['proximity'] == 0.0 and sq_underflows(nearest)):
                return bad('single target: proximity %r is not the exact distance %r' % (vals['proximity'], nearest), r, c)
    return True


def oracle(ctx, case, impl, what='numpy', exact_small=True):
    """checks the C06 statement on the implementation's three outputs; returns True when clean"""
    metric = case.get('metric', 'EUCLIDEAN')
    gc = metric == 'GREAT_CIRCLE'
    rtol = 1e-6 if gc else 0.0
    md = case['max_distance']
    md = INF if md in ('inf', None) else float(md)
    data = cast_data(case)
    tv = case_tv(case)
    xs = [float(v) for v in case['xs']]
    ys = [float(v) for v in case['ys']]
    h = len(data)
    w = len(data[0]) if h else 0
    wanted = case.get('only') or ('proximity', 'allocation', 'direction')
    for name in wanted:
        if name not in impl:
            ctx.violation('oracle', '%s: %s raised or is missing: %s' % (what, name, case.get('_err', {}).get(name)),
                          dict(case, function=name))
            return False
    if len(wanted) < 3:
        return oracle_partial(ctx, case, impl, what)
    P, A, D = impl['proximity'], impl['allocation'], impl['direction']
    targets = [(r, c) for r in range(h) for c in range(w) if is_target_val(data[r][c], tv)]

    def bad(msg, r, c, **kw):
        ctx.violation('oracle', '%s: %s at cell (%d,%d) [metric %s, max_distance %r]' % (what, msg, r, c, metric, case['max_distance']),
                      dict(case, cell=[r, c], proximity=P[r][c], allocation=A[r][c], direction=D[r][c], **kw))
        return False

    def close(a, b):
        return a == b or abs(a - b) <= rtol * max(abs(a), abs(b))
    for r in range(h):
        for c in range(w):
            p, a, d = P[r][c], A[r][c], D[r][c]
            tgt = (r, c) in targets
            nan3 = [math.isnan(v) for v in (p, a, d)]
            if any(nan3) and not all(nan3):
                return bad('NaN in some but not all of proximity/allocation/direction (%r, %r, %r)' % (p, a, d), r, c)
            ds = [(true_dist(metric, xs[c], ys[r], xs[tc], ys[tr]), tr, tc) for tr, tc in targets]
            nearest = min(x[0] for x in ds) if ds else None
            if tgt and not (p == 0.0):
                return bad('target cell has proximity %r, expected 0' % p, r, c)
            if tgt and not (d == 0.0):
                return bad('target cell has direction %r, expected 0 (the cell itself)' % d, r, c)
            if (not tgt) and d == 0.0:
                # 0 is reserved for the cell itself.  Tolerated only as floating-point rounding at the 0/360 seam: the
                # named target is due north up to a few ulps of the angle (atan2(-dy, dx) * 57.29578 within 4 ulps of 90),
                # where 0 and 360 denote the same compass direction
                seam = False
                for tr, tc in targets:
                    ang = math.atan2(-(ys[tr] - ys[r]), xs[tc] - xs[c]) * 57.29578
                    if abs(ang - 90.0) <= 4 * math.ulp(90.0) and same(f32(data[tr][tc]), a):
                        seam = True
                if not seam:
                    return bad('non-target cell has direction 0 (reserved for the target cell itself)', r, c)
            if (not tgt) and p == 0.0 and not sq_underflows(nearest):
                return bad('non-target cell has proximity 0', r, c)
            if math.isnan(p):
                if targets and md == INF:
                    return bad('NaN although the raster has a target and max_distance is unbounded', r, c)
                continue
            # the cell is not NaN
            if nearest is None:
                return bad('no target in the raster but proximity is %r' % p, r, c)
            if p < nearest and not close(p, nearest) and not (p == 0.0 and sq_underflows(nearest)):
                return bad('proximity %r underestimates the nearest target distance %r' % (p, nearest), r, c, nearest=nearest)
            # the output is float32: a distance equal to max_distance may round up by half an ulp
            if p > max(md, f32(md)) and not (gc and close(p, md)):
                return bad('proximity %r exceeds max_distance' % p, r, c)
            # ... and names one real target: same cell gives the distance, the allocation value and the bearing
            ok = False
            for dist, tr, tc in ds:
                if close(dist, p) and same(f32(data[tr][tc]), a) and \
                        abs(compass(xs[c], ys[r], xs[tc], ys[tr]) - d) <= 1e-3:
                    ok = True
                    break
            if not ok:
                return bad('no target cell has distance %r, value %r and bearing %r from this cell' % (p, a, d), r, c)
            if len(targets) == 1 and not close(p, nearest):
                return bad('single target: proximity %r is not the exact distance %r' % (p, nearest), r, c, nearest=nearest)
            if exact_small and h * w <= 12 and square_cells(xs, ys):
                if md == INF and not close(p, nearest):
                    return bad('small grid: proximity %r is not the exact nearest distance %r' % (p, nearest), r, c, nearest=nearest)
    # a cell with no target within max_distance is NaN in all three outputs; conversely a cell that HAS a target within
    # max_distance must not be NaN.  "Within" includes exact equality (radius 2 on a unit grid, Manhattan radius 3,
    # 3-4-5 offsets); only genuine float32 rounding of the squared distance is tolerated.  The converse is demanded
    # where the four-sweep propagation is bound to deliver the target: a single target, the small grids on which the
    # algorithm is exact, and targets in the same row or column as the cell (carried by pan_near straight along it).
    small = exact_small and h * w <= 12 and square_cells(xs, ys)
    for r in range(h):
        for c in range(w):
            p = P[r][c]
            ds = [(true_dist(metric, xs[c], ys[r], xs[tc], ys[tr]), tr, tc) for tr, tc in targets]
            nearest = min(x[0] for x in ds) if ds else None
            if nearest is not None and nearest > max(md, f32(md)) and not math.isnan(p) and not (gc and close(nearest, md)):
                return bad('no target within max_distance (nearest %r) but proximity is %r' % (nearest, p), r, c)
            if not math.isnan(p) or gc or md == INF:
                continue
            for dist, tr, tc in ds:
                if not surely_within(dist, md):
                    continue
                if len(targets) == 1:
                    return bad('single target at distance %r <= max_distance but the cell is NaN' % dist, r, c, nearest=dist)
                if small or tr == r or tc == c:
                    return bad('target (%d,%d) at distance %r <= max_distance but the cell is NaN' % (tr, tc, dist), r, c,
                               nearest=dist)
    return True


# ----------------------------------------------------------------------------------------------
# generators
# ----------------------------------------------------------------------------------------------
SQ2, SQ5 = math.sqrt(2.0), math.sqrt(5.0)
MD_CHOICES = ['inf', 'inf', 'inf', 0.0, 0.5, 0.75, 1.0, SQ2, 1.5, 2.0, SQ5, 2.5, 3.0, math.sqrt(8.0), math.sqrt(10.0), 3.5, 4.0,
              math.sqrt(13.0), 4.5, 5.0, 7.0]
# a 7x7 layout family on which the heuristic is known to overestimate is produced by gen_layout('inexact')


def gen_coords(rng, n, kind):
    """integer coordinates: unit / scaled / descending / offset / non-uniform"""
    step = 1
    if kind in ('nonsquare', 'nonsquare_desc'):
        step = rng.choice([2, 3, 5])
    off = rng.choice([0, 0, -3, 10])
    cs = [off + step * i for i in range(n)]
    if kind == 'nonuniform':
        cur = off
        cs = []
        for i in range(n):
            cs.append(cur)
            cur += rng.choice([1, 1, 2, 3])
    if kind in ('desc', 'nonsquare_desc') or (kind == 'nonuniform' and rng.random() < 0.3):
        cs = cs[::-1]
    return cs


def gen_layout(rng, h, w, kind):
    """-> grid of small integers (0 = background); targets are the non-zero cells"""
    g = [[0] * w for _ in range(h)]
    cells = [(r, c) for r in range(h) for c in range(w)]

    def val():
        # mostly positive, some negative (non-zero finite values are targets whatever their sign)
        return rng.randint(1, 9) * (-1 if rng.random() < 0.2 else 1)
    if kind == 'single':
        pos = rng.choice(['corner', 'edge', 'inner', 'any'])
        if pos == 'corner':
            r, c = rng.choice([(0, 0), (0, w - 1), (h - 1, 0), (h - 1, w - 1)])
        elif pos == 'edge':
            r, c = rng.choice([(0, rng.randrange(w)), (h - 1, rng.randrange(w)), (rng.randrange(h), 0), (rng.randrange(h), w - 1)])
        elif pos == 'inner' and h > 2 and w > 2:
            r, c = rng.randint(1, h - 2), rng.randint(1, w - 2)
        else:
            r, c = rng.choice(cells)
        g[r][c] = val()
    elif kind == 'sparse':
        for r, c in rng.sample(cells, min(len(cells), rng.randint(2, 4))):
            g[r][c] = val()
    elif kind == 'dense':
        for r, c in cells:
            if rng.random() < 0.5:
                g[r][c] = val()
    elif kind == 'line':
        if rng.random() < 0.5:
            r = rng.randrange(h)
            for c in range(w):
                if rng.random() < 0.8:
                    g[r][c] = val()
        else:
            c = rng.randrange(w)
            for r in range(h):
                if rng.random() < 0.8:
                    g[r][c] = val()
    elif kind == 'diag':
        s = rng.choice([1, -1])
        o = rng.randrange(w)
        for r in range(h):
            c = (o + s * r)
            if 0 <= c < w and rng.random() < 0.85:
                g[r][c] = val()
    elif kind == 'edges':
        # targets on the border only: interior cells depend on long propagation chains
        for r, c in cells:
            if (r in (0, h - 1) or c in (0, w - 1)) and rng.random() < 0.35:
                g[r][c] = val()
    elif kind == 'all':
        for r, c in cells:
            g[r][c] = val()
    elif kind == 'none':
        pass
    elif kind == 'multi':
        # >= 3 targets, every one its own value
        k = 1
        for r, c in rng.sample(cells, min(len(cells), rng.randint(3, 7))):
            g[r][c] = k
            k += 1
    elif kind == 'distinct':
        # every target its own value: allocation identifies the remembered cell uniquely
        k = 1
        for r, c in cells:
            if rng.random() < 0.25:
                g[r][c] = k
                k += 1
    return g


# every dtype Numba accepts for the raster (float16 is not supported by Numba: NotImplementedError, outside the domain)
DTYPES = ['float64', 'float64', 'float32', 'float32', 'int32', 'int64', 'int8', 'int16', 'uint8', 'uint16', 'uint32', 'uint64',
          'bool']


def vary_target_values(rng, tv):
    """unsorted, duplicated, absent, 0 / NaN / inf entries (NaN never matches; inf matches inf cells)"""
    tv = list(tv)
    u = rng.random()
    if u < 0.15:
        tv = tv + [tv[0]]                          # duplicate
    elif u < 0.30:
        tv = tv[::-1] + [float(rng.randint(10, 20))]   # unsorted + a value absent from the raster
    elif u < 0.40:
        tv = [float('nan')] + tv
    elif u < 0.50:
        tv = tv + [float('inf')]
    elif u < 0.58:
        tv = [float(rng.randint(10, 20))]          # only absent values: no target at all
    elif u < 0.66:
        tv = tv + [0.0]
    elif u < 0.72:
        tv = tv + [-float(rng.randint(1, 9))]
    rng.shuffle(tv)
    return tv


LAYOUTS = ['single', 'multi', 'sparse', 'sparse', 'dense', 'line', 'diag', 'edges', 'distinct', 'multi', 'all', 'none',
           'single', 'multi', 'distinct']
COORDS = ['unit', 'unit', 'desc', 'nonsquare', 'nonsquare_desc', 'nonuniform']


def gen_case(rng, i, small=False, metric=None, shape=None):
    if shape:
        h, w = shape
    elif small:
        h, w = rng.choice([(1, 1), (1, 4), (4, 1), (2, 3), (3, 4), (3, 3), (2, 6), (1, 9)])
    else:
        h, w = rng.randint(2, 10), rng.randint(2, 10)
    layout = LAYOUTS[i % len(LAYOUTS)]
    g = gen_layout(rng, h, w, layout)
    metric = metric or ['EUCLIDEAN', 'EUCLIDEAN', 'MANHATTAN'][i % 3]
    ykind = rng.choice(COORDS)
    xkind = rng.choice(COORDS)
    ys = gen_coords(rng, h, ykind)
    xs = gen_coords(rng, w, xkind)
    if rng.random() < 0.25:
        # cells taller than wide (dy > dx, non-integer ratio included): vertical neighbours are farther than horizontal ones
        sx, sy = rng.choice([(5, 9), (1, 2), (2, 3), (2, 5), (5, 9)])
        xs = [sx * j for j in range(w)]
        ys = [sy * j for j in range(h)]
        if rng.random() < 0.4:
            ys = ys[::-1]
        ykind = xkind = 'tall'
    dtype = rng.choice(DTYPES)
    data = [[float(v) for v in row] for row in g]
    tv = []
    mode = 'default'
    if rng.random() < 0.35:
        mode = 'target_values'
        present = sorted({v for row in g for v in row})
        k = rng.randint(1, 3)
        tv = sorted(set(rng.sample(present, min(k, len(present))) + ([rng.randint(1, 9)] if rng.random() < 0.3 else [])))
        if 0 in tv and rng.random() < 0.7:
            tv.remove(0)
        if not tv:
            tv = [rng.randint(1, 9)]
        tv = [float(v) for v in tv]
        tv = vary_target_values(rng, tv)
    if dtype.startswith('float'):
        for r in range(h):
            for c in range(w):
                u = rng.random()
                if u < 0.03:
                    data[r][c] = float('nan')
                elif u < 0.045:
                    data[r][c] = float('inf')
                elif u < 0.055:
                    data[r][c] = float('-inf')
    md = rng.choice(MD_CHOICES)
    if md != 'inf' and rng.random() < 0.4:
        # relative to a cell size
        cs = abs(xs[1] - xs[0]) if w > 1 else 1
        md = float(md) * cs
    u = rng.random()
    if u < 0.04:
        md = None                                  # documented spelling of "unbounded"
    elif u < 0.08:
        md = rng.choice([1e6, 1e30, 1e200])        # huge: max_distance**2 overflows for the last one
    cdtype = 'int64' if rng.random() < 0.2 else 'float64'
    case = dict(fn='numpy3', layout=layout, metric=metric, data=data, dtype=dtype, xs=xs, ys=ys, cdtype=cdtype,
                ykind=ykind, xkind=xkind, tv=tv, mode=mode, max_distance=md)
    if tv:
        case['tv_kind'] = rng.choice(['list', 'list', 'ints', 'tuple', 'ndarray'])
    if md not in ('inf', None) and float(md) == int(float(md)) and float(md) < 1e18 and rng.random() < 0.3:
        case['md_int'] = True                      # max_distance given as a Python int
    if rng.random() < 0.2:
        case['dims'] = rng.choice([['lat', 'lon'], ['row', 'col'], ['x', 'y']])   # names passed through y= / x=
    return case


def gen_gc_case(rng, i):
    h, w = rng.randint(2, 7), rng.randint(2, 7)
    g = gen_layout(rng, h, w, LAYOUTS[i % len(LAYOUTS)])
    sx = rng.choice([1, 2, 5])
    sy = rng.choice([1, 2, 5])
    x0 = rng.randint(-170, 170 - sx * w)
    y0 = rng.randint(-80, 80 - sy * h)
    xs = [x0 + sx * j for j in range(w)]
    ys = [y0 + sy * j for j in range(h)]
    if rng.random() < 0.5:
        ys = ys[::-1]
    md = rng.choice(['inf', 'inf', 120000.0, 250000.0, 600000.0, 1500000.0])
    return dict(fn='numpy3', layout='gc', metric='GREAT_CIRCLE', data=[[float(v) for v in row] for row in g], dtype='float64',
                xs=xs, ys=ys, cdtype='float64', ykind='gc', xkind='gc', tv=[], mode='default', max_distance=md)


FIXTURE = dict(fn='numpy3', layout='fixture', metric='EUCLIDEAN',
               data=[[0., 0., 0., 0., 0., 2.], [0., 0., 1., 0., 0., 0.], [0., 0., 0., 0., 0., 0.], [3., 0., 0., 0., 0., 4.]][::1],
               dtype='float64', xs=[0, 1, 2, 3, 4, 5], ys=[3, 2, 1, 0], cdtype='float64', ykind='desc', xkind='unit', tv=[],
               mode='default', max_distance='inf')


# 4x4, three targets: the heuristic gives cell (0,0) distance 3 although the target at (2,2) is at sqrt(8)
# (Coq: Example C06_not_exact_witness) - allowed by the property (never UNDERestimated)
WITNESS = dict(fn='numpy3', layout='inexact-witness', metric='EUCLIDEAN',
               data=[[0., 0., 0., 1.], [0., 0., 0., 0.], [0., 0., 2., 0.], [3., 0., 0., 0.]],
               dtype='float64', xs=[0, 1, 2, 3], ys=[0, 1, 2, 3], cdtype='float64', ykind='unit', xkind='unit', tv=[],
               mode='default', max_distance='inf')


# layouts on which one particular edit of the sweep logic changes the result (found by differential search with
# mutated copies of the extracted model): the diagonal candidate, the direction of the second call, the reset of
# pan_near between the passes, strict vs non-strict comparison.  Random layouts are rarely sensitive to the first.
HARD_LAYOUTS = [
    ('nodiag', [[3, 0, 4, 1], [0, 0, 2, 0], [0, 0, 0, 0], [0, 0, 0, 5]], 3.0),
    ('nodiag', [[0, 1, 0, 0], [0, 0, 3, 0], [0, 0, 0, 0], [0, 0, 0, 2]], 'inf'),
    ('nodiag', [[5, 0, 0, 2, 0], [0, 0, 1, 0, 0], [0, 0, 0, 0, 0], [0, 0, 0, 3, 0]], 'inf'),
    ('nodiag', [[5, 0, 0, 0, 0], [0, 0, 4, 6, 2], [0, 0, 0, 0, 1], [0, 0, 0, 3, 0]], 'inf'),
    ('samedir', [[0, 0, 0, 0], [0, 0, 3, 0], [0, 0, 0, 0], [1, 2, 0, 0]], 'inf'),
    ('samedir', [[0, 0, 2, 0], [0, 0, 0, 0], [1, 0, 0, 0], [0, 6, 0, 5]], 'inf'),
    ('nopanreset', [[0, 0, 0, 0], [0, 0, 0, 0], [0, 0, 0, 0], [3, 0, 2, 0]], 2.0),
    ('nopanreset', [[0, 0, 5, 0], [0, 0, 0, 0], [0, 0, 0, 0], [1, 3, 0, 4]], 1.5),
    ('le', [[0, 1, 0, 0], [4, 0, 5, 0], [0, 2, 0, 0], [3, 0, 0, 0]], 'inf'),
    ('le', [[0, 5, 0, 0], [0, 0, 0, 0], [3, 0, 0, 0], [0, 1, 0, 4]], 3.0),
]


def hard_cases():
    out = []
    for name, g, md in HARD_LAYOUTS:
        h, w = len(g), len(g[0])
        out.append(dict(fn='numpy3', layout='hard-' + name, metric='EUCLIDEAN', data=[[float(v) for v in row] for row in g],
                        dtype='float64', xs=list(range(w)), ys=list(range(h)), cdtype='float64', ykind='unit', xkind='unit',
                        tv=[], mode='default', max_distance=md))
    return out


def base_case(g, **kw):
    h, w = len(g), len(g[0])
    c = dict(fn='numpy3', layout='special', metric='EUCLIDEAN', data=[[float(v) for v in row] for row in g], dtype='float64',
             xs=list(range(w)), ys=list(range(h)), cdtype='float64', ykind='unit', xkind='unit', tv=[], mode='default',
             max_distance='inf')
    c.update(kw)
    return c


def precision_cases(rng):
    """cell values that float32 cannot represent: the target test must see the raster's own dtype"""
    out = []
    h, w = rng.randint(3, 5), rng.randint(3, 6)
    cells = [(r, c) for r in range(h) for c in range(w)]
    # int64 ids around 2**24: only the odd one is a target
    g = [[float(2 ** 24)] * w for _ in range(h)]
    for r, c in rng.sample(cells, rng.randint(1, 3)):
        g[r][c] = float(2 ** 24 + 1)
    out.append(base_case(g, layout='precision-int64-ids', dtype='int64', tv=[float(2 ** 24 + 1)], mode='target_values'))
    # float64 codes with a listed value that is not a float32 (0.1); 0.25 cells are not targets
    g = [[0.25] * w for _ in range(h)]
    for r, c in rng.sample(cells, rng.randint(1, 3)):
        g[r][c] = 0.1
    out.append(base_case(g, layout='precision-float64-code', tv=[0.1], mode='target_values',
                         max_distance=rng.choice(['inf', 2.0])))
    # default rule: tiny / huge float64 values are non-zero and finite, hence targets
    g = [[0.0] * w for _ in range(h)]
    for (r, c), v in zip(rng.sample(cells, 2), [1e-50, 1e39]):
        g[r][c] = v
    out.append(base_case(g, layout='precision-tiny-huge'))
    return out


def boundary_cases(rng):
    """max_distance attained EXACTLY by some cell (no float rounding involved): radius 2 on a unit grid, Manhattan radius 3,
    3-4-5 offsets; and max_distance = 0 given as 0.0 and as the int 0"""
    out = []
    h, w = rng.randint(5, 8), rng.randint(5, 8)
    g = gen_layout(rng, h, w, 'single')
    out.append(base_case(g, layout='boundary-radius2', max_distance=2.0))
    g = gen_layout(rng, h, w, rng.choice(['single', 'multi']))
    out.append(base_case(g, layout='boundary-manhattan3', metric='MANHATTAN', max_distance=3.0))
    g = [[0] * 7 for _ in range(7)]
    g[rng.choice([0, 1])][rng.choice([0, 1])] = 4
    out.append(base_case(g, layout='boundary-345', max_distance=5.0, md_int=rng.random() < 0.5,
                         ys=list(range(7))[::-1] if rng.random() < 0.5 else list(range(7))))
    g = gen_layout(rng, rng.randint(2, 5), rng.randint(2, 5), 'sparse')
    out.append(base_case(g, layout='max_distance-zero', max_distance=0.0, md_int=rng.random() < 0.5))
    # 0 requested as a target value on a raster of zeros: every cell is a target
    h, w = rng.randint(2, 5), rng.randint(2, 5)
    out.append(base_case([[0] * w for _ in range(h)], layout='all-zero-zero-is-target', tv=[0.0], mode='target_values',
                         dtype=rng.choice(['float64', 'int32', 'uint8']), max_distance=rng.choice(['inf', 1.0])))
    return out


def dask_stream_cases(rng):
    """Dask-backed rasters (the property does not restrict the backend): non-square cells, several chunkings, a finite
    max_distance below the diagonal, targets in neighbouring chunks; checked with the same oracle"""
    out = []
    for i in range(3):
        cx, cy = [(1, 3), (3, 1), (1, 3)][i]
        h, w = rng.randint(5, 8), rng.randint(7, 10)
        if cy == 1:
            h, w = w, h
        g = gen_layout(rng, h, w, 'multi')
        md = 3.0 if i < 2 else 4.5
        c = base_case(g, layout='dask-nonsquare', xs=[cx * j for j in range(w)],
                      ys=[cy * j for j in range(h)][::-1] if i == 2 else [cy * j for j in range(h)],
                      max_distance=md, xkind='dask', ykind='dask')
        # small chunks along the axis with the small cells (that is where the halo must be deep)
        small = lambda n: [2] * (n // 2) + ([1] if n % 2 else [])
        c['chunks'] = [small(h) if cy == 1 else [h - h // 2, h // 2], small(w) if cx == 1 else [w - w // 2, w // 2]]
        c['only'] = [['proximity', 'allocation'], ['proximity', 'direction'], ['allocation', 'direction']][i]
        out.append(c)
    # 0 among target_values, pixel coordinates from arange (origin at cell (0,0)), finite max_distance below the diagonal:
    # whatever fills the halo outside the raster must not be taken for a target
    h, w = rng.randint(5, 8), rng.randint(5, 8)
    g = [[rng.randint(1, 9) for _ in range(w)] for _ in range(h)]
    for _ in range(rng.randint(1, 3)):
        g[rng.randint(h // 2, h - 1)][rng.randint(w // 2, w - 1)] = 0
    c = base_case(g, layout='dask-zero-is-target', tv=[0.0], mode='target_values', dtype=rng.choice(['float64', 'int32']),
                  max_distance=rng.choice([1.0, 1.5, 2.0]), xkind='dask', ykind='dask')
    c['chunks'] = [[h - h // 2, h // 2], [w // 2, w - w // 2]]
    c['only'] = ['proximity', 'allocation']
    out.append(c)
    return out


def sequence_cases(rng):
    """short in-process sequences: the same function / metric / max_distance with same-length but DIFFERENT target_values,
    on the same raster and then on another one - every call is checked (a result must not depend on earlier calls)"""
    out = []
    for i in range(2):
        h, w = rng.randint(3, 6), rng.randint(3, 6)
        g = [[rng.choice([0, 0, 1, 2, 3, 4]) for _ in range(w)] for _ in range(h)]
        g[0][0], g[h - 1][w - 1] = 1, 4                    # both values occur
        g2 = [[rng.choice([0, 0, 0, 2, 5]) for _ in range(w)] for _ in range(h)]
        g2[rng.randrange(h)][rng.randrange(w)] = 2
        md = 'inf' if i == 0 else 2.0
        metric = 'EUCLIDEAN' if i == 0 else 'MANHATTAN'
        fn = ['proximity', 'allocation'][i]
        steps = [base_case(g, layout='sequence', tv=[1.0], mode='target_values', max_distance=md, metric=metric),
                 base_case(g, layout='sequence', tv=[4.0], mode='target_values', max_distance=md, metric=metric),
                 base_case(g2, layout='sequence', tv=[2.0], mode='target_values', max_distance=md, metric=metric)]
        steps.append(dict(steps[0]))                      # the first call repeated after the others
        out.append([dict(case=c, only=[fn]) for c in steps])
    return out


def odd_coordinate_cases(rng):
    """coordinates the integer-key model does not take: fractional (dyadic and not), tiny, huge offsets, mixed directions -
    oracle only, except the integer-valued huge ones; and one larger raster"""
    out = []
    for kind in ('fractional', 'tiny', 'huge'):
        h, w = rng.randint(3, 8), rng.randint(3, 8)
        g = gen_layout(rng, h, w, rng.choice(['multi', 'sparse', 'single', 'distinct']))
        if kind == 'fractional':
            sx, sy, x0, y0 = rng.choice([0.25, 0.5, 2.5, 0.1]), rng.choice([0.25, 1.5, 0.3]), -1.75, 10.5
        elif kind == 'tiny':
            sx, sy, x0, y0 = 1e-3, rng.choice([1e-3, 2e-3]), 0.0, 5.0
        else:
            sx, sy, x0, y0 = 1000.0, rng.choice([1000.0, 250.0]), 4.0e6, -7.5e6
        xs = [x0 + sx * j for j in range(w)]
        ys = [y0 + sy * j for j in range(h)]
        if rng.random() < 0.5:
            ys = ys[::-1]
        md = rng.choice(['inf', 1.0 * sx, 2.0 * sx, 2.5 * sy, 1.5 * max(sx, sy)])
        integral = all(float(v) == int(v) for v in xs + ys)
        out.append(base_case(g, layout='coords-' + kind, xs=xs, ys=ys, xkind=kind, ykind=kind, max_distance=md,
                             metric=rng.choice(['EUCLIDEAN', 'MANHATTAN']), no_model=not integral))
    big = gen_case(rng, rng.randrange(len(LAYOUTS)), shape=(rng.randint(18, 30), rng.randint(18, 30)))
    big['layout'] = 'large-' + big['layout']
    out.append(big)
    return out


def gc_box_cases(rng):
    """GREAT_CIRCLE with unbounded max_distance on boxes whose corner-to-corner great-circle distance is NOT the largest
    cell-to-cell distance (high latitudes, wide longitude spans, a near-global band): no cell may be NaN"""
    out = []
    boxes = [([55, 60, 65, 70, 75, 80], [0, 20, 40, 60, 80, 100, 120]),
             ([-10, -5, 0, 5, 10], [-170, -130, -90, -50, -10, 30, 70, 110, 150, 170]),
             ([60, 70, 80], [-150, -100, -50, 0, 50, 100, 150])]
    for i in range(2):
        ys, xs = boxes[(i + rng.randrange(3)) % 3]
        if rng.random() < 0.5:
            ys = ys[::-1]
        h, w = len(ys), len(xs)
        g = [[0] * w for _ in range(h)]
        # one target on the row nearest the equator, at a longitude end (the far end of that row is beyond the diagonal)
        r0 = min(range(h), key=lambda r: abs(ys[r]))
        g[r0][rng.choice([0, w - 1])] = rng.randint(1, 9)
        if i == 1 and rng.random() < 0.5:
            g[rng.randrange(h)][rng.randrange(w)] = rng.randint(1, 9)
        out.append(dict(fn='numpy3', layout='gc-box', metric='GREAT_CIRCLE', data=[[float(v) for v in row] for row in g],
                        dtype='float64', xs=xs, ys=ys, cdtype='float64', ykind='gc', xkind='gc', tv=[], mode='default',
                        max_distance=[None, 'inf'][i]))
    return out


def theme_cases(rng):
    """appended stream (theme audit): memory layouts of the raster and of the coordinate arrays, exact integer ids beyond 2**53
    and 2**31, dtype limits, target values one ulp off a cell value, numpy-scalar max_distance, float32 / int32 coordinates,
    empty tuple / ndarray target_values, degenerate rasters (1x1, 2x2, all NaN, one valid cell), antimeridian and poles"""
    out = []
    fns = [['proximity', 'allocation'], ['direction'], ['allocation'], ['proximity', 'direction']]
    for i, (mem, cmem) in enumerate([('F', None), ('T', 'strided'), ('strided', 'reversed'), ('reversed', 'readonly')]):
        h, w = rng.randint(3, 7), rng.randint(3, 7)
        c = base_case(gen_layout(rng, h, w, 'multi'), layout='mem-' + mem, mem=mem, cmem=cmem, only=fns[i],
                      dtype=['float64', 'int32', 'float32', 'uint8'][i], max_distance=rng.choice(['inf', 2.0, 3.0]),
                      metric=['EUCLIDEAN', 'MANHATTAN'][i % 2])
        if mem == 'reversed':
            c['mem'] = rng.choice(['reversed', 'readonly'])
        out.append(c)
    # exact integer ids: 2**53 and 2**53+1 differ only as integers; 2**31+5 does not fit int32
    h, w = 3, 4
    big = [[2 ** 53] * w for _ in range(h)]
    big[rng.randrange(h)][rng.randrange(w)] = 2 ** 53 + 1
    out.append(base_case([[0] * w] * h, layout='ids-beyond-2**53', data_int=big, dtype='int64', tv=[2 ** 53 + 1], tv_exact=True,
                         mode='target_values', only=['proximity']))
    mid = [[2 ** 31 + 4] * w for _ in range(h)]
    mid[rng.randrange(h)][rng.randrange(w)] = 2 ** 31 + 5
    out.append(base_case([[0] * w] * h, layout='ids-beyond-2**31', data_int=mid, dtype=rng.choice(['uint32', 'int64', 'uint64']),
                         tv=[2 ** 31 + 5], tv_exact=True, mode='target_values', only=['proximity']))
    # dtype limits as cell values and as requested targets
    dt, lo, hi = rng.choice([('int8', -128, 127), ('uint8', 0, 255), ('int16', -32768, 32767), ('uint16', 0, 65535)])
    lim = [[rng.choice([lo, hi, 1, 0]) for _ in range(w)] for _ in range(h)]
    lim[0][0], lim[h - 1][w - 1] = lo, hi
    out.append(base_case(lim, layout='dtype-limits', dtype=dt, tv=[float(hi)] if lo == 0 else [float(lo), float(hi)],
                         mode='target_values', only=['allocation'], tv_kind='ints'))
    # a requested value one ulp off the cell value must not match; the float32 cell value itself must
    g = [[0.25] * w for _ in range(h)]
    g[1][2] = 0.1
    ulp = [[float(v) for v in row] for row in g]
    which = rng.randrange(3)
    if which == 0:
        out.append(base_case(g, layout='tv-one-ulp-off', tv=[math.nextafter(0.1, 1.0), math.nextafter(0.25, 0.0)],
                             mode='target_values', only=['proximity']))
    elif which == 1:
        out.append(base_case(g, layout='tv-float32-cell', dtype='float32', tv=[float(np.float32(0.1))], mode='target_values',
                             only=['proximity']))
    else:
        out.append(base_case(g, layout='tv-float64-vs-float32-cell', dtype='float32', tv=[0.1], mode='target_values',
                             only=['proximity']))
    # max_distance as a numpy scalar, coordinates in another dtype, empty tuple / ndarray target_values
    g = gen_layout(rng, 4, 5, 'sparse')
    out.append(base_case(g, layout='md-numpy-scalar', max_distance=2.0, md_kind=rng.choice(['np.float32', 'np.int64', 'np.float64',
                                                                                           'np.int32']),
                         cdtype=rng.choice(['float32', 'int32', 'int16']), only=['proximity'], tv_kind=rng.choice(['tuple', 'ndarray'])))
    # degenerate rasters
    nan = float('nan')
    out.append(base_case([[nan, nan, nan], [nan, nan, nan]], layout='all-nan', only=['proximity']))
    one = [[nan] * 3 for _ in range(3)]
    one[rng.randrange(3)][rng.randrange(3)] = 5.0
    out.append(base_case(one, layout='one-valid-cell', only=['allocation'], max_distance=rng.choice(['inf', 1.0])))
    out.append(base_case([[rng.choice([0, 7])]], layout='1x1', only=['proximity', 'direction'], max_distance=rng.choice(['inf', 0.0])))
    out.append(base_case([[0, 3], [0, 0]], layout='2x2', only=['direction'], ys=[1, 0]))
    # GREAT_CIRCLE on the antimeridian and at the poles
    ys = rng.choice([[90, 60, 30, 0], [-90, -45, 0, 45, 90]])
    xs = [-180, -90, 0, 90, 180]
    g = [[0] * len(xs) for _ in ys]
    g[rng.randrange(len(ys))][rng.choice([0, len(xs) - 1])] = 4
    out.append(dict(fn='numpy3', layout='gc-antimeridian-poles', metric='GREAT_CIRCLE', data=[[float(v) for v in row] for row in g],
                    dtype='float64', xs=xs, ys=ys, cdtype='float64', ykind='gc', xkind='gc', tv=[], mode='default',
                    max_distance='inf', only=['proximity', 'allocation'], no_model=True))
    return out


def canon_impl(res):
    """worker result -> ({name: grid}, {name: error})"""
    grids, errs = {}, {}
    for name in ('proximity', 'allocation', 'direction'):
        v = res.get(name)
        if v is None:
            continue
        if 'error' in v:
            errs[name] = v['error']
        else:
            grids[name] = v['v']
            if v['dtype'] != 'float32':
                errs[name + '/dtype'] = v['dtype']
            if v.get('mutated'):
                errs[name + '/mutated'] = v['mutated']
    return grids, errs


def nontrivial(case):
    data = cast_data(case)
    tv = case_tv(case)
    flags = [is_target_val(v, tv) for row in data for v in row]
    return any(flags) and not all(flags)


def build_cases(ctx, n_main, n_small, n_gc):
    rng = ctx.rng
    cases = [dict(FIXTURE), dict(FIXTURE, max_distance=2.0), dict(FIXTURE, metric='MANHATTAN', max_distance=3.0),
             dict(WITNESS), dir0_case()] + hard_cases() + precision_cases(rng) + boundary_cases(rng) + \
        odd_coordinate_cases(rng) + gc_box_cases(rng)
    # the named streams are repeated in the larger tiers (one round in quick)
    for _ in range(max(0, n_main // 40 - 1)):
        cases += precision_cases(rng) + boundary_cases(rng) + odd_coordinate_cases(rng) + gc_box_cases(rng)
    for i in range(n_main):
        cases.append(gen_case(rng, i))
    for i in range(n_small):
        cases.append(gen_case(rng, i, small=True))
    for i in range(n_gc):
        cases.append(gen_gc_case(rng, i))
    # appended last: earlier draws stay as they were
    for _ in range(max(1, n_main // 40)):
        cases += theme_cases(rng)
    return cases


def process_results(ctx, cases, results, what='numpy'):
    lines, idx = [], []
    for case, res in zip(cases, results):
        ctx.case(case, nontrivial=nontrivial(case))
        ctx.count('%s/%s/%s/%s/md=%s' % (what, case['metric'], case['layout'], case['mode'],
                                         'inf' if case['max_distance'] in ('inf', None) else 'finite'))
        ctx.count('coords/%s-%s' % (case['ykind'], case['xkind']))
        if 'fatal' in res:
            ctx.violation('oracle', '%s: worker failed: %s' % (what, res['fatal']), case)
            continue
        grids, errs = canon_impl(res)
        case_e = dict(case, _err=errs) if errs else case
        if errs and any(k.endswith('/dtype') for k in errs):
            ctx.violation('oracle', '%s: output dtype is not float32: %r' % (what, errs), case)
        if errs and any(k.endswith('/mutated') for k in errs):
            ctx.violation('oracle', '%s: the call changed the caller\'s raster (%r)' % (what, errs), case)
        oracle(ctx, case_e, grids, what)
        if len(grids) == len(case.get('only') or (1, 2, 3)) and not case.get('no_model'):
            try:
                lines.append(model_line(case))
                idx.append((case, grids))
            except ValueError as e:
                ctx.notes.append('case skipped for the model (%s)' % e)
    if ctx.model is not None and lines:
        outs = ctx.model.run(lines)
        for (case, grids), mo in zip(idx, outs):
            ctx.traces += 1
            if mo.startswith('ERR'):
                ctx.violation('correspondence', 'model returned %s' % mo[:100], case)
                continue
            compare_model(ctx, case, grids, mo, what)


def extra_requests(ctx, rounds=1):
    """Dask-backed non-square rasters and in-process call sequences (oracle only): (requests, meta)"""
    reqs, meta = [], []
    for _ in range(rounds):
        for c in dask_stream_cases(ctx.rng):
            reqs.append({'op': 'dask3', 'case': c, 'chunks': c['chunks'], 'only': c['only']})
            meta.append(('dask', [c]))
        for steps in sequence_cases(ctx.rng):
            reqs.append({'op': 'seq', 'steps': steps})
            meta.append(('seq', [dict(st['case'], only=st['only']) for st in steps]))
    return reqs, meta


def process_extra(ctx, meta, res):
    for (kind, cs), r in zip(meta, res):
        rs = [r] if kind == 'dask' else r.get('seq', [])
        if 'fatal' in r or len(rs) != len(cs):
            ctx.violation('oracle', '%s stream: worker failed: %s' % (kind, r.get('fatal')), cs[0])
            continue
        for k, (c, one) in enumerate(zip(cs, rs)):
            ctx.case(c, nontrivial=nontrivial(c))
            ctx.count('%s-stream/%s' % (kind, c['metric']))
            grids, errs = canon_impl(one)
            if any(k2.endswith('/mutated') for k2 in errs):
                ctx.violation('oracle', '%s stream: the call changed the caller\'s raster (%r)' % (kind, errs), c)
            case_e = dict(c, _err=errs, sequence_position=k, sequence=cs) if kind == 'seq' else dict(c, _err=errs)
            oracle(ctx, case_e, grids, 'dask-backed' if kind == 'dask' else 'call %d of an in-process sequence' % (k + 1))


def run_all(ctx, cases, rounds):
    ereqs, emeta = extra_requests(ctx, rounds)
    pool = ImplPool()
    try:
        # the multi-call requests first, so that they overlap with the single-case ones
        res = pool.map(ereqs + [{'op': 'numpy3', 'case': c, 'only': c.get('only')} for c in cases])
    finally:
        pool.close()
    process_extra(ctx, emeta, res[:len(ereqs)])
    process_results(ctx, cases, res[len(ereqs):])


def run(ctx):
    if ctx.quick():
        cases = build_cases(ctx, 12, 3, 2)
        run_all(ctx, cases, 1)
    else:
        cases = build_cases(ctx, 420, 120, 60)
        run_all(ctx, cases, 12)
    ctx.exhaustive = False


def search(ctx):
    """an obligation / the correspondence broke without an oracle violation: run the oracle on more cases"""
    model = ctx.model
    ctx.model = None
    try:
        run_all(ctx, build_cases(ctx, 150, 60, 20), 4)
    finally:
        ctx.model = model


def replay_case(ctx, case):
    case = {k: v for k, v in case.items() if k not in ('cell', 'proximity', 'allocation', 'direction', 'nearest',
                                                       'function', 'impl', 'model', '_err', 'sequence_position')}
    for row in case['data']:
        for i, v in enumerate(row):
            if isinstance(v, str):
                row[i] = float(v)
    if isinstance(case.get('max_distance'), str) and case['max_distance'] != 'inf':
        case['max_distance'] = float(case['max_distance'])
    if case.get('sequence'):
        seq = case['sequence']
        rs = _call_seq([dict(case=c, only=c.get('only')) for c in seq])['seq']
        for k, (c, one) in enumerate(zip(seq, rs)):
            ctx.case(c)
            grids, errs = canon_impl(one)
            oracle(ctx, dict(c, _err=errs, sequence_position=k, sequence=seq), grids,
                   'call %d of an in-process sequence' % (k + 1))
        return
    if case.get('chunks'):
        res = _call3(case, case['chunks'], case.get('only'))
        ctx.case(case)
        grids, errs = canon_impl(res)
        oracle(ctx, dict(case, _err=errs), grids, 'dask-backed')
        return
    res = _call3(case)
    process_results(ctx, [case], [res])
