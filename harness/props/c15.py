"""C15 — polygonize is lossless: rasterising the polygons gives back the raster.
Correspondence: xrspatial.experimental.polygonize.polygonize(..., return_type='numpy') (value column and every
vertex list) and _calculate_regions (region ids) vs the extracted Coq model coq/C15/Model.v.
Oracle (independent of the model, written from the property text): flood fill of equal-valued unmasked cells,
even-odd point-in-polygon rasteriser on cell centres, shoelace area / orientation, on the implementation's output."""
import itertools
from fractions import Fraction

import numpy as np
import xarray as xr

ID = 'C15'
RULE = ('rasters <= 12x12 (mostly <= 8x8) over alphabets of 1-4 values from structured generators (uniform noise, smoothed '
        'blobs, concentric nested rings, spirals, random spanning-tree mazes and combs = U-shapes needing multi-level merges, '
        'holes touching the border, checkerboards / diagonal lines = 8-connected pinches, > 64 provisional region ids = lookup resize, 2xN combs with N near 63/64/127/128 whose last merge lands in the last slot of region_lookup) plus noise, shapes 1x1, 1xN, Nx1, 2xN; '
        'int8/16/32/64, uint8/16/32/64, bool, float32/float64 rasters (quick: int32/int64/uint8 + one further width per seed) (float values dyadic, spaced >= 0.25 so _is_close is equality); mask '
        'absent / all-true / random / structured / all-false with bool/int/float mask dtype, "include" = any truthy value (2, -1, 255, 0.5, NaN); '
        'long thin rasters (1..3 x 13..90, thorough ..300 and 13..30 squared), > 128 provisional ids; close-but-unequal floats inside the '
        'documented tolerance (oracle uses tolerance classes); transforms also non-dyadic / passed as list, int array, float32 array; '
        'DataArrays with named dims, coords, attrs; rejected arguments (connectivity not 4/8, mask shape, transform length, return_type, ndim) must raise ValueError; '
        ' connectivity 4 and 8; transform absent '
        'or dyadic affine (scales, flips, rotations, shears, offsets); values and mask independently in memory layout C / Fortran copy / '
        'transposed view / strided view / transposed strided view; integer rasters with large ids differing by 1 (1e5, 5e6, 4e9); '
        ' 30% of the float rasters get +inf/-inf/NaN cells (inf equals only '
        'itself, NaN nothing). Thorough additionally enumerates every 0/1 raster of every '
        'shape with <= 11 cells (<= 8 with a mask: every {masked,0,1} assignment). A case is non-trivial when it has >= 1 unmasked cell; distinct by JSON encoding.')
TRUSTED = [
    'raster values are embedded into Z by a per-case power-of-two scale; _is_close is modelled at exact equality — for float '
    'rasters the generators only use dyadic values spaced >= 0.25 with magnitude <= 16, where abs(a-b) <= 1e-8+1e-5*abs(a) is equality',
    '+inf / -inf cells are embedded as the sentinels +-2^45 and the k-th NaN cell as 2^46+k (distinct from everything, like NaN != NaN); '
    'this matches the FIXED _is_close (fixes/C15-is-close-inf.diff: infinite values match only themselves)',
    'np.empty_like garbage in the extra column of the nx == 1 workaround is modelled as 0 (never read: the mask test precedes every value read)',
    'np.empty point buffer of _follow: modelled as the list of emitted points; the model fails if pass 1 emits a different number of points '
    'than pass 0 allocated for (proved never to happen: C15_follow_passes_agree)',
    'transform coefficients and transformed vertices cross the boundary scaled by a power of two (dyadic transforms only, so the float64 '
    'arithmetic of _transform_points is exact); uint32 region ids / uint8 visited flags are modelled in Z (no overflow below 2^32-1 regions; '
    'the RuntimeError branch is modelled as failure)',
    'xarray/NumPy glue of polygonize()/_polygonize_numpy (argument checks, hstack, ravel) is covered by correspondence only',
]
ASSUMPTIONS = ['NumPy-backed DataArray, return_type="numpy"; mask values are 0/1 (False/True); +-inf cells equal only themselves, NaN cells equal nothing (IEEE ==)',
               'float rasters: values far enough apart that the np.isclose-style tolerance of _is_close coincides with equality']
PARTIAL = [
    'C15_lossless_full_statement (for EVERY raster: the model\'s polygons rasterise back to the raster, area = cell count, orientation) '
    'is stated and NOT claimed: what is missing is that _scan never fails (needs "final region ids are numbered in order of first '
    'cell" and "visited bit 1 is only set inside already followed regions") and the Jordan-curve step "the followed ring encloses '
    'exactly the region"; it is proved only for the bounded domains of C15_bounded_lossless_small(_masked) (and of the coqc-only '
    'Extended.v theorems C15x_*) and checked by correspondence + oracle beyond them',
    'the component relation inside the BOUNDED theorems is the executable min-label propagation Spec.comp_labels; the universal '
    'C15_regions_are_components uses the path relation (clos_refl_trans of linkedP) — the two are not proved equal',
]
LEVEL_TEXT = ('Proved for all inputs (any size below 2^32-1 cells): REGIONS ARE COMPONENTS — two unmasked cells get the same final region id '
              'iff they are joined by a 4-/8-path of equal-valued unmasked cells (union-find invariant through every labelled cell and '
              'merge, then compaction = same root), region_lookup stays acyclic, labelling never fails, masked cells get region 0; THE '
              'BOUNDARY FOLLOWER TERMINATES — started on any region boundary of any region array it returns to its start within the '
              '4*nx*ny fuel (its step has a left inverse on boundary states; pigeonhole) and the ring is closed, on cell corners of '
              '[0,nx]x[0,ny] and axis-parallel; both passes count the same points; the transform is applied to every vertex. Bounded '
              '(vm_compute, bound in the statement, re-checked by coqchk): full losslessness (even-odd rasterisation, exactly-once '
              'coverage, area, orientation, polygons = components) for every raster over {0,1,2} / {masked,0,1} on shapes with <= 5 cells '
              'and over {0,1} on shapes with <= 6 cells, 3x3, 2x4, 4x2; coq/C15/Extended.v proves the same (coqc only) for {0,1,2} and '
              '{masked,0,1} on every shape with <= 8 cells and 3x3. Not proved in general: that the followed rings enclose exactly the '
              'region (unbounded losslessness) — correspondence (exact vertex lists and region ids) + rasterising oracle cover it.')
LEVEL_NOTE = ('Trusted: Coq kernel, extraction, the OCaml driver, the harness; values embedded in Z with _is_close modelled as equality '
              '(dyadic, well separated float values only); NumPy glue (hstack/ravel/np.empty) covered by correspondence only.')
OCAML_UTILS = ['zio.ml']

INF_KEY = 'is-close-infinite-reference'
BIG = 2 ** 45          # model-side sentinels: +inf -> BIG, -inf -> -BIG, k-th NaN cell -> 2*BIG + k (NaN never equals anything)


def num(v):
    """case values are numbers, or the strings 'inf' / '-inf' / 'nan' (JSON-safe)"""
    return float(v) if isinstance(v, str) else v


def same_value(a, b):
    return a == b or (a != a and b != b)


def has_inf(case):
    return any(isinstance(v, str) and 'inf' in v for row in case['values'] for v in row)


INT_DTYPES = ['int64', 'int32', 'uint8', 'uint32']
FLOAT_DTYPES = ['float64', 'float32']


def _impl():
    import importlib
    return importlib.import_module('xrspatial.experimental.polygonize')


# ----------------------------------------------------------------------------------------------
# oracle (independent of the model)
# ----------------------------------------------------------------------------------------------
def components(vals, mask, conn8):
    """flood fill: label grid, None for masked cells, component ids 0.. in row-major order of first cell"""
    ny, nx = len(vals), len(vals[0])
    lab = [[None] * nx for _ in range(ny)]
    nb = [(1, 0), (-1, 0), (0, 1), (0, -1)]
    if conn8:
        nb += [(1, 1), (1, -1), (-1, 1), (-1, -1)]
    k = 0
    for j in range(ny):
        for i in range(nx):
            if lab[j][i] is not None or (mask is not None and not mask[j][i]):
                continue
            lab[j][i] = k
            stack = [(i, j)]
            while stack:
                ci, cj = stack.pop()
                for di, dj in nb:
                    a, b = ci + di, cj + dj
                    if 0 <= a < nx and 0 <= b < ny and lab[b][a] is None and \
                            (mask is None or mask[b][a]) and vals[b][a] == vals[cj][ci]:
                        lab[b][a] = k
                        stack.append((a, b))
            k += 1
    return lab, k


def ring_contains(ring, cx2, cy2):
    """even-odd rule for the point (cx2/2, cy2/2), ray towards +x; integer vertices, exact integer arithmetic"""
    inside = False
    for (x1, y1), (x2, y2) in zip(ring, ring[1:]):
        y1d, y2d = 2 * y1, 2 * y2
        if (y1d > cy2) != (y2d > cy2):
            # x of the crossing: x1 + (cy - y1) * (x2 - x1) / (y2 - y1)  >  cx   (all doubled, sign of dy handled)
            dy = y2d - y1d
            lhs = 2 * x1 * dy + (cy2 - y1d) * 2 * (x2 - x1)
            rhs = cx2 * dy
            if (lhs > rhs) if dy > 0 else (lhs < rhs):
                inside = not inside
    return inside


def shoelace2(ring):
    return sum(x1 * y2 - x2 * y1 for (x1, y1), (x2, y2) in zip(ring, ring[1:]))


def oracle_polygons(case, column, polys):
    """property text on the (untransformed) output; returns None or a description of the failure"""
    vals, mask = [[num(v) for v in row] for row in case['values']], case['mask']
    ny, nx = case['ny'], case['nx']
    conn8 = case['connectivity'] == 8
    classes = case.get('classes')     # close-but-unequal floats: equality = the documented np.isclose-style tolerance class
    lab, ncomp = components(classes if classes is not None else vals, mask, conn8)
    if len(column) != len(polys):
        return 'column has %d entries for %d polygons' % (len(column), len(polys))
    for k, rings in enumerate(polys):
        for r, ring in enumerate(rings):
            for x, y in ring:
                if not (float(x).is_integer() and float(y).is_integer() and 0 <= x <= nx and 0 <= y <= ny):
                    return 'polygon %d ring %d vertex (%s, %s) is not a cell corner of the %dx%d raster' % (k, r, x, y, ny, nx)
    fr = [[[(int(x), int(y)) for x, y in ring] for ring in rings] for rings in polys]   # exact: all vertices are integers
    for k, rings in enumerate(fr):
        if not rings:
            return 'polygon %d has no exterior' % k
        for r, ring in enumerate(rings):
            if len(ring) < 4:
                return 'polygon %d ring %d has only %d points' % (k, r, len(ring))
            if ring[0] != ring[-1]:
                return 'polygon %d ring %d is not closed' % (k, r)
            for (x1, y1), (x2, y2) in zip(ring, ring[1:]):
                if (x1 != x2) == (y1 != y2):
                    return 'polygon %d ring %d edge (%s,%s)-(%s,%s) is not a non-degenerate axis-parallel edge' % (k, r, x1, y1, x2, y2)
            a2 = shoelace2(ring)
            if r == 0 and not a2 > 0:
                return 'polygon %d exterior is not anticlockwise (2*area = %s)' % (k, a2)
            if r > 0 and not a2 < 0:
                return 'polygon %d hole %d is not clockwise (2*area = %s)' % (k, r, a2)
    owner = [[[] for _ in range(nx)] for _ in range(ny)]
    for k, rings in enumerate(fr):
        cnt = 0
        xs = [x for x, _ in rings[0]]
        ys = [y for _, y in rings[0]]
        for j in range(max(0, min(ys)), min(ny, max(ys))):
            for i in range(max(0, min(xs)), min(nx, max(xs))):
                cx, cy = 2 * i + 1, 2 * j + 1
                if ring_contains(rings[0], cx, cy) and not any(ring_contains(h, cx, cy) for h in rings[1:]):
                    owner[j][i].append(k)
                    cnt += 1
        area2 = sum(shoelace2(r) for r in rings)
        if area2 != 2 * cnt:
            return 'polygon %d: area (exterior minus holes) %s != its cell count %d' % (k, Fraction(area2, 2), cnt)
    comp_of_poly = {}
    for j in range(ny):
        for i in range(nx):
            own = owner[j][i]
            if lab[j][i] is None:
                if own:
                    return 'masked cell (row %d, col %d) lies in polygon(s) %r' % (j, i, own)
                continue
            if len(own) != 1:
                return 'unmasked cell (row %d, col %d) lies in %d polygons %r (must be exactly one)' % (j, i, len(own), own)
            k = own[0]
            if classes is not None:
                if not abs(column[k] - vals[j][i]) <= 1e-8 + 1.2e-5 * abs(vals[j][i]):
                    return 'cell (row %d, col %d) has value %r but its polygon %d carries the non-close value %r' % (j, i, vals[j][i], k, column[k])
            elif not same_value(column[k], vals[j][i]):
                return 'cell (row %d, col %d) has value %r but its polygon %d carries value %r' % (j, i, vals[j][i], k, column[k])
            if comp_of_poly.setdefault(k, lab[j][i]) != lab[j][i]:
                return 'polygon %d covers cells of two different connected regions (cell row %d col %d)' % (k, j, i)
    if len(set(comp_of_poly.values())) != len(comp_of_poly):
        return 'one connected region is split over several polygons'
    if len(polys) != ncomp:
        return '%d polygons for %d connected regions' % (len(polys), ncomp)
    return None


def oracle_regions(case, regions):
    """region ids: 0 exactly on masked cells; same id iff same flood-fill component"""
    lab, ncomp = components(case.get('classes') or [[num(v) for v in row] for row in case['values']], case['mask'],
                            case['connectivity'] == 8)
    nx = case['nx']
    m = {}
    inv = {}
    for ij, r in enumerate(regions):
        l = lab[ij // nx][ij % nx]
        if l is None:
            if r != 0:
                return 'masked cell %d has region %d' % (ij, r)
            continue
        if r == 0:
            return 'unmasked cell %d has region 0' % ij
        if m.setdefault(l, r) != r:
            return 'cells of one connected region carry different region ids (cell %d: %d vs %d)' % (ij, r, m[l])
        if inv.setdefault(r, l) != l:
            return 'region id %d is shared by two different connected regions (cell %d)' % (r, ij)
    return None


# ----------------------------------------------------------------------------------------------
# running the implementation and the model
# ----------------------------------------------------------------------------------------------
LAYOUTS = ['C', 'F', 'T', 'S', 'ST']


def with_layout(a, layout):
    """the same logical (ny, nx) array in another memory layout: C-contiguous, Fortran copy, transposed view of a C array,
    strided view into a larger buffer, transposed strided view"""
    if layout == 'F':
        b = np.asfortranarray(a)
    elif layout == 'T':
        b = np.ascontiguousarray(a.T).T
    elif layout == 'S':
        big = np.zeros((2 * a.shape[0] + 1, 2 * a.shape[1] + 3), dtype=a.dtype)
        b = big[1::2, 1:2 * a.shape[1]:2]
        b[...] = a
    elif layout == 'ST':
        big = np.zeros((2 * a.shape[1] + 1, 3 * a.shape[0] + 2), dtype=a.dtype)
        b = big[:2 * a.shape[1]:2, 1:3 * a.shape[0]:3].T
        b[...] = a
    elif layout == 'R':        # reversed view (negative strides on both axes)
        b = np.ascontiguousarray(a[::-1, ::-1])[::-1, ::-1]
    elif layout == 'RO':       # C-contiguous, non-writeable
        b = np.ascontiguousarray(a).copy()
        b.setflags(write=False)
    else:
        b = np.ascontiguousarray(a)
    assert b.shape == a.shape and (b == a).all() or a.dtype.kind == 'f'
    return b


class InputMutated(Exception):
    pass


def arrays_of(case):
    if case['dtype'].startswith('float'):
        a = np.array([[num(v) for v in row] for row in case['values']], dtype='float64').reshape(case['ny'], case['nx']).astype(case['dtype'])
    else:       # exact for ids beyond 2^53
        a = np.array([[int(v) for v in row] for row in case['values']], dtype=case['dtype']).reshape(case['ny'], case['nx'])
    a = with_layout(a, case.get('layout', 'C'))
    m = None
    if case['mask'] is not None:
        m = np.array([[num(b) for b in row] for row in case['mask']], dtype='float64').reshape(case['ny'], case['nx']).astype(case['mask_dtype'])
        m = with_layout(m, case.get('mask_layout', 'C'))
    return a, m


def run_impl(pz, case, transform):
    a, m = arrays_of(case)
    tr = None
    if transform is not None:
        kind = case.get('transform_as', 'f64')
        tr = list(transform) if kind == 'list' else np.array(transform, dtype='int64') if kind == 'int' else \
            np.array(transform, dtype='float32') if kind == 'f32' else np.array(transform, dtype='float64')

    def wrap(x):
        if case.get('xr', 'plain') == 'coords':     # named dims, descending y / scaled x coordinates, attrs, name: all ignored
            return xr.DataArray(x, dims=['lat', 'lon'], name='band',
                                coords={'lat': [50.0 - 0.25 * j for j in range(x.shape[0])], 'lon': [7.5 + 2 * i for i in range(x.shape[1])]},
                                attrs={'res': 0.25, 'crs': 'EPSG:4326', 'nodata': -1})
        return xr.DataArray(x)
    da, dm = wrap(a), None if m is None else wrap(m)
    class Snap:       # cheap snapshot of the xarray metadata
        def __init__(self, d):
            self.dims, self.attrs, self.name = tuple(d.dims), dict(d.attrs), d.name
            self.coords = {c: np.array(d.coords[c].values, copy=True) for c in d.coords}
    before = (a.tobytes(), None if m is None else m.tobytes(), None if tr is None else repr(tr), Snap(da),
              None if dm is None else Snap(dm))
    kw = {} if 'column_name' not in case else {'column_name': case['column_name']}
    col, polys = pz.polygonize(da, mask=dm, connectivity=case['connectivity'], transform=tr, return_type='numpy', **kw)
    # inputs (data, mask, transform, coords, attrs) must be unchanged after the call
    if a.tobytes() != before[0] or (m is not None and m.tobytes() != before[1]) or (tr is not None and repr(tr) != before[2]) \
            or list(da.dims) != list(before[3].dims) or da.attrs != before[3].attrs or da.name != before[3].name \
            or any(not np.array_equal(da.coords[c].values, before[3].coords[c]) for c in before[3].coords) \
            or (dm is not None and (dm.attrs != before[4].attrs or list(dm.dims) != list(before[4].dims))):
        raise InputMutated('polygonize modified its inputs (raster / mask / transform / coords / attrs)')
    col = [v.item() if hasattr(v, 'item') else v for v in col]
    polys = [[[(float(p[0]), float(p[1])) for p in np.asarray(ring).reshape(-1, 2)] for ring in rings] for rings in polys]
    return col, polys


def run_impl_regions(pz, case):
    a, m = arrays_of(case)
    ny, nx = a.shape
    r = pz._calculate_regions(np.ascontiguousarray(a).ravel(), None if m is None else np.ascontiguousarray(m).ravel(),
                              case['connectivity'] == 8, nx, ny)
    return [int(v) for v in r]


def pow2_scale(xs):
    s = 1
    while any(Fraction(x) * s % 1 != 0 for x in xs):
        s *= 2
        if s > 2 ** 40:
            raise ValueError('not dyadic')
    return s


def model_lines(case):
    """(poly line, regions line or None, value scale, transform scale)"""
    flat = [v for row in (case.get('classes') or case['values']) for v in row]
    vs = pow2_scale([v for v in flat if not isinstance(v, str)])

    def ztok(z):
        return str(z) if abs(z) < 2 ** 60 else ('-0x%x' % -z if z < 0 else '0x%x' % z)
    toks = []
    for k, v in enumerate(flat):
        if isinstance(v, str):
            toks.append(str(BIG if v == 'inf' else -BIG if v == '-inf' else 2 * BIG + k))
        else:
            toks.append(ztok(int(Fraction(v) * vs)))
    zs = ' '.join(toks)
    ms = ''
    if case['mask'] is not None:
        ms = ' ' + ' '.join(str(int(bool(b))) for row in case['mask'] for b in row)
    hm = 0 if case['mask'] is None else 1
    c8 = 1 if case['connectivity'] == 8 else 0
    ts = 1
    trs = '0'
    if case['transform'] is not None:
        ts = pow2_scale(case['transform'])
        trs = '1 ' + ' '.join(str(int(Fraction(t) * ts)) for t in case['transform'])
    poly = 'poly %d %d %d %s %d %s%s' % (c8, case['ny'], case['nx'], trs, hm, zs, ms)
    reg = None
    if case['nx'] >= 2:
        reg = 'regions %d %d %d %d %s%s' % (c8, case['ny'], case['nx'], hm, zs, ms)
    return poly, reg, vs, ts


def parse_model_poly(out):
    t = out.split()
    if t[0] != 'OK':
        return None
    it = iter(t[1:])
    n = int(next(it))
    col, polys = [], []
    for _ in range(n):
        col.append(int(next(it), 0))
        rings = []
        for _ in range(int(next(it))):
            npts = int(next(it))
            rings.append([(int(next(it)), int(next(it))) for _ in range(npts)])
        polys.append(rings)
    return col, polys


def compare_poly(case, impl, model_out, vs, ts):
    m = parse_model_poly(model_out)
    if m is None:
        return 'model returned %s but the implementation returned %d polygons' % (model_out[:60], len(impl[1]))
    col, polys = impl
    mcol, mpolys = m
    def col_ok(v, z):
        if v != v:
            return z >= 2 * BIG
        if v in (float('inf'), float('-inf')):
            return z == (BIG if v > 0 else -BIG)
        return Fraction(v) * vs == z
    if case.get('classes') is None and (len(col) != len(mcol) or not all(col_ok(v, z) for v, z in zip(col, mcol))):
        return 'value column differs: implementation %r vs model %r (scale %d)' % (col, mcol, vs)
    if len(polys) != len(mpolys):
        return 'polygon count differs: %d vs %d' % (len(polys), len(mpolys))
    for k, (a, b) in enumerate(zip(polys, mpolys)):
        if len(a) != len(b):
            return 'polygon %d: %d rings vs model %d' % (k, len(a), len(b))
        for r, (ra, rb) in enumerate(zip(a, b)):
            # ts is a power of two and all coordinates are dyadic and small: the float products are exact
            if [(x * ts, y * ts) for x, y in ra] != [(float(x), float(y)) for x, y in rb]:
                return 'polygon %d ring %d vertex list differs: implementation %r vs model %r (scale %d)' % (k, r, ra, rb, ts)
    return None


# ----------------------------------------------------------------------------------------------
# generators
# ----------------------------------------------------------------------------------------------
def g_uniform(rng, ny, nx, k):
    return [[rng.randrange(k) for _ in range(nx)] for _ in range(ny)]


def g_blobs(rng, ny, nx, k):
    g = g_uniform(rng, ny, nx, k)
    for _ in range(rng.randint(1, 2)):
        h = [row[:] for row in g]
        for j in range(ny):
            for i in range(nx):
                cnt = {}
                for dj in (-1, 0, 1):
                    for di in (-1, 0, 1):
                        a, b = i + di, j + dj
                        if 0 <= a < nx and 0 <= b < ny:
                            cnt[g[b][a]] = cnt.get(g[b][a], 0) + 1
                best = max(cnt.values())
                h[j][i] = rng.choice(sorted(v for v, c in cnt.items() if c == best))
        g = h
    return g


def g_nested(rng, ny, nx, k):
    """concentric rectangular rings (nested holes), optionally shifted so that rings touch / leave the border"""
    oi, oj = rng.randint(-2, 2), rng.randint(-2, 2)
    w = rng.randint(1, 2)
    vals = [rng.randrange(k) for _ in range(12)]
    for t in range(1, 12):
        if vals[t] == vals[t - 1]:
            vals[t] = (vals[t] + 1) % max(k, 2)
    g = [[0] * nx for _ in range(ny)]
    for j in range(ny):
        for i in range(nx):
            d = min(i + oi, nx - 1 - i - oi, j + oj, ny - 1 - j - oj)
            g[j][i] = vals[(d // w) % 12] if d >= 0 else vals[11]
    return g


def g_spiral(rng, ny, nx, k):
    g = [[0] * nx for _ in range(ny)]
    i, j, di, dj = 0, 0, 1, 0
    lo_i, hi_i, lo_j, hi_j = 0, nx - 1, 0, ny - 1
    seen = set()
    steps = 0
    while 0 <= i < nx and 0 <= j < ny and steps < 4 * nx * ny:
        g[j][i] = 1
        seen.add((i, j))
        a, b = i + di, j + dj
        # turn when the cell two ahead is already on the spiral or the wall is reached
        a2, b2 = i + 2 * di, j + 2 * dj
        if not (0 <= a < nx and 0 <= b < ny) or (a2, b2) in seen or (a, b) in seen:
            di, dj = -dj, di
            a, b = i + di, j + dj
            a2, b2 = i + 2 * di, j + 2 * dj
            if not (0 <= a < nx and 0 <= b < ny) or (a2, b2) in seen or (a, b) in seen:
                break
        i, j = a, b
        steps += 1
    if rng.random() < 0.5:
        g = [row[::-1] for row in g]
    if rng.random() < 0.5:
        g = g[::-1]
    if rng.random() < 0.5 and nx == ny:
        g = [list(r) for r in zip(*g)]
    return g


def g_maze(rng, ny, nx, k):
    """random spanning-tree maze: corridors (value 1) of width 1 between walls (value 0): U-turns, spirals,
    branches joined late in scan order => multi-level merges of region ids"""
    g = [[0] * nx for _ in range(ny)]
    cw, ch = (nx + 1) // 2, (ny + 1) // 2
    seen = {(rng.randrange(cw), rng.randrange(ch))}
    frontier = list(seen)
    for (a, b) in seen:
        g[2 * b][2 * a] = 1
    while frontier:
        idx = rng.randrange(len(frontier)) if rng.random() < 0.5 else len(frontier) - 1
        a, b = frontier[idx]
        nbrs = [(a + da, b + db) for da, db in ((1, 0), (-1, 0), (0, 1), (0, -1))
                if 0 <= a + da < cw and 0 <= b + db < ch and (a + da, b + db) not in seen]
        if not nbrs:
            frontier.pop(idx)
            continue
        c, d = rng.choice(nbrs)
        seen.add((c, d))
        frontier.append((c, d))
        g[2 * d][2 * c] = 1
        g[b + d][a + c] = 1
    if rng.random() < 0.4:  # walls get a second value in places
        for j in range(ny):
            for i in range(nx):
                if g[j][i] == 0 and rng.random() < 0.3:
                    g[j][i] = 2 % max(k, 2) if k > 2 else 0
    if rng.random() < 0.5:
        g = [[1 - v if v < 2 else v for v in row] for row in g]
    return g


def g_comb(rng, ny, nx, k):
    """teeth hanging down from bars at different heights: every bar merges the ids of several teeth, bars are merged by
    higher bars (multi-level lookup chains); upside-down variant has no merges but hole starts on the border"""
    g = [[0] * nx for _ in range(ny)]
    for i in range(0, nx, 2):
        top = rng.randint(0, ny - 1)
        for j in range(0, top + 1):
            g[j][i] = 1
    for _ in range(rng.randint(1, 4)):
        j = rng.randint(1, ny - 1) if ny > 1 else 0
        a = rng.randint(0, nx - 1)
        b = rng.randint(a, nx - 1)
        for i in range(a, b + 1):
            g[j][i] = 1
    if rng.random() < 0.3:
        g = g[::-1]
    if rng.random() < 0.3:
        g = [row[::-1] for row in g]
    return g


def g_pinch(rng, ny, nx, k):
    kind = rng.randrange(4)
    if kind == 0:      # checkerboard with blocks
        p, q = rng.randint(1, 2), rng.randint(1, 2)
        return [[((i // p) + (j // q)) % 2 for i in range(nx)] for j in range(ny)]
    if kind == 1:      # diagonal stripes
        m = rng.randint(2, 3)
        s = rng.choice([1, -1])
        return [[(i + s * j) % m % max(k, 2) for i in range(nx)] for j in range(ny)]
    if kind == 2:      # diamonds: |i-ci|+|j-cj| rings
        ci, cj = rng.randint(0, nx - 1), rng.randint(0, ny - 1)
        m = rng.randint(2, 3)
        return [[(abs(i - ci) + abs(j - cj)) % m % max(k, 2) for i in range(nx)] for j in range(ny)]
    g = [[0] * nx for _ in range(ny)]   # random diagonal walks
    for _ in range(rng.randint(1, 3)):
        i, j = rng.randrange(nx), rng.randrange(ny)
        v = rng.randint(1, max(1, k - 1))
        for _ in range(rng.randint(2, nx + ny)):
            if 0 <= i < nx and 0 <= j < ny:
                g[j][i] = v
            i += rng.choice([1, -1])
            j += rng.choice([1, 1, -1])
    return g


def g_border_holes(rng, ny, nx, k):
    """one big region with small foreign cells / blocks placed on the border, in corners and inside"""
    g = [[1] * nx for _ in range(ny)]
    for _ in range(rng.randint(1, 5)):
        w, h = rng.randint(1, 2), rng.randint(1, 2)
        where = rng.randrange(6)
        i = [0, nx - w, rng.randint(0, max(0, nx - w)), rng.randint(0, max(0, nx - w)), 0, nx - w][where]
        j = [rng.randint(0, max(0, ny - h)), rng.randint(0, max(0, ny - h)), 0, ny - h, 0, ny - h][where]
        if rng.random() < 0.3:
            i, j = rng.randint(0, max(0, nx - w)), rng.randint(0, max(0, ny - h))
        v = rng.choice([0, 2 % max(k, 2), 0])
        for b in range(max(0, j), min(ny, j + h)):
            for a in range(max(0, i), min(nx, i + w)):
                g[b][a] = v
    return g


def g_growth(rng, ny, nx, k, ids=70):
    """> 64 provisional region ids (a 3-colour pattern in which no cell equals its W or S neighbour) below a maze / comb whose
    merges then involve ids >= 64: exercises the resize of region_lookup in _merge_regions"""
    h = min(ny - 2, max(6, ids // nx + 1))
    g = [[(i + 2 * j) % 3 for i in range(nx)] for j in range(h)]
    top = (g_maze if rng.random() < 0.5 else g_comb)(rng, ny - h, nx, 2)
    if rng.random() < 0.5:
        top = [[v + 3 for v in row] for row in top]
    return g + top


def g_lastslot(rng, N=None, kind=None, v0=None):
    """2 x N comb: row 0 alternates two values (N provisional ids), row 1 holds a bar that joins stripes so that the largest
    merged ("upper") provisional id is len(region_lookup)-1 = max(64, N)-1 with no later resize: the merge recorded in the LAST
    slot of region_lookup must survive the final relabelling.  N around 63/64/127/128."""
    N = N or rng.choice([62, 63, 64, 65, 66, 126, 127, 128, 129, 130])
    v0 = rng.choice([0, 1]) if v0 is None else v0
    kind = rng.randrange(3) if kind is None else kind
    row0 = [(v0 + i) % 2 for i in range(N)]
    L = max(64, N)
    b = min(N - 1, L - 2)
    if row0[b] != row0[0] and kind == 0:
        b -= 1
    if kind == 0:            # whole row of the first stripe's value: joins every stripe of that value
        row1 = [row0[0]] * (b + 1) + [2] * (N - 1 - b)
    else:                    # short bar ending at cell b, joining the last two (kind 1) or last few stripes of that value
        a = b - 2 * (1 if kind == 1 else rng.randint(1, 5))
        row1 = [2] * N
        for i in range(max(0, a), b + 1):
            row1[i] = row0[b]
    return [row0, row1]


GENS = [('uniform', g_uniform), ('blobs', g_blobs), ('nested', g_nested), ('spiral', g_spiral), ('maze', g_maze),
        ('comb', g_comb), ('pinch', g_pinch), ('border-holes', g_border_holes)]


def gen_shape(rng, big, thorough=False):
    u = rng.random()
    if u < 0.025:        # long thin rasters (region_lookup is sized max(64, nx, ny); many provisional ids in one row / column)
        n = rng.randint(13, 300 if thorough else 90)
        w = rng.choice([1, 1, 2, 3])
        return (w, n) if rng.random() < 0.5 else (n, w)
    if thorough and u < 0.035:   # larger than 12x12
        return rng.randint(13, 30), rng.randint(13, 30)
    if u < 0.06:
        return 1, rng.randint(1, 12)
    if u < 0.12:
        return rng.randint(1, 12), 1
    if u < 0.15:
        return 1, 1
    if u < 0.22:
        return rng.choice([(2, rng.randint(2, 10)), (rng.randint(2, 10), 2)])
    if u < 0.22 + big:
        return rng.randint(9, 12), rng.randint(9, 12)
    return rng.randint(2, 8), rng.randint(2, 8)


def gen_mask(rng, ny, nx):
    u = rng.random()
    if u < 0.40:
        return None, 'none'
    if u < 0.47:
        return [[1] * nx for _ in range(ny)], 'all-true'
    if u < 0.50:
        return [[0] * nx for _ in range(ny)], 'all-false'
    if u < 0.80:
        p = rng.choice([0.95, 0.85, 0.7, 0.5])
        return [[1 if rng.random() < p else 0 for _ in range(nx)] for _ in range(ny)], 'random'
    kind = rng.randrange(3)
    m = [[1] * nx for _ in range(ny)]
    if kind == 0:      # masked ring / frame
        d = rng.randint(0, 2)
        for j in range(ny):
            for i in range(nx):
                if min(i, j, nx - 1 - i, ny - 1 - j) == d:
                    m[j][i] = 0
    elif kind == 1:    # masked stripe(s)
        if rng.random() < 0.5:
            jj = rng.randrange(ny)
            for i in range(nx):
                m[jj][i] = 0 if rng.random() < 0.9 else 1
        else:
            ii = rng.randrange(nx)
            for j in range(ny):
                m[j][ii] = 0 if rng.random() < 0.9 else 1
    else:              # masked diagonal
        for j in range(ny):
            for i in range(nx):
                if (i + j) % 3 == 0:
                    m[j][i] = 0
    return m, 'structured'


TRANSFORMS = [
    [0.1, 0, 0.3, 0, 1 / 3, -0.7], [30.5, 0, 500000.123, 0, -30.5, 4000000.7], [0.1, 0.2, 0.3, -0.2, 0.1, 0.001],
    [1, 0, 50, 0, 1, 40], [1, 0, 0.5, 0, 1, 0.5], [1, 0, -3, 0, 1, 0], [1, 0, 0, 0, 1, 7],
    [1, 0, 0, 0, 1, 0], [2, 0, 10, 0, 3, -5], [1, 0, 100, 0, -1, 50], [-1, 0, 0, 0, -1, 0], [0, -1, 7, 1, 0, -3],
    [0.5, 0, 0.25, 0, 0.5, -0.75], [1, 1, 0, 0, 1, 0], [30, 0, 500000, 0, -30, 4000000], [0.25, -0.5, 3, 1.5, 2, -8],
    [0, 0, 0, 0, 0, 0],
]


def gen_case(rng, combos, big=0.06, thorough=False):
    ny, nx = gen_shape(rng, big, thorough)
    k = rng.choice([1, 2, 2, 2, 3, 3, 4])
    name, g = rng.choice(GENS)
    if rng.random() < 0.03:
        name, g, ny, nx = 'growth', g_growth, rng.randint(10, 13), rng.randint(10, 12)
        if thorough and rng.random() < 0.5:       # > 128 and > 256 provisional ids: two / three resizes of region_lookup
            ids = rng.choice([130, 140, 200, 260, 300])
            ny, nx = ids // 12 + rng.randint(6, 9), 12
            g = (lambda r, a, b, c: g_growth(r, a, b, c, ids=ids))
    elif rng.random() < 0.01:
        grid0 = g_lastslot(rng)
        name, g, ny, nx = 'last-slot', (lambda r, a, b, c: [row[:] for row in grid0]), 2, len(grid0[0])
    grid = g(rng, ny, nx, k)
    if rng.random() < 0.35:     # noise on top of the structure
        for _ in range(rng.randint(1, max(1, nx * ny // 8))):
            grid[rng.randrange(ny)][rng.randrange(nx)] = rng.randrange(max(k, 2))
    dtype, mask_dtype, with_tr = rng.choice(combos)
    mask, mkind = (None, 'none') if mask_dtype is None else gen_mask(rng, ny, nx)
    if mask_dtype is not None and mask is None:
        mask, mkind = [[1 if rng.random() < 0.85 else 0 for _ in range(nx)] for _ in range(ny)], 'random'
    classes = None
    if dtype.startswith('float') and rng.random() < 0.07:
        # close-but-unequal floats: cells of one class differ by < 7e-6 relative (inside the documented rtol=1e-5 of _is_close,
        # in both directions), classes are far apart: "equal value" means "same class"
        classes = [row[:] for row in grid]
        grid = [[(2 + 1.5 * v) * (1 + rng.choice([0, 2e-6, -3e-6, 4e-6])) for v in row] for row in grid]
        if dtype == 'float32':
            grid = [[float(np.float32(v)) for v in row] for row in grid]
        name += '+close-floats'
    elif dtype == 'bool':
        grid = [[v % 2 for v in row] for row in grid]
    elif dtype in ('int8', 'int16', 'uint16', 'uint64'):
        off = rng.choice({'int8': [0, -128, 120, -3], 'int16': [0, -32768, 32000, 1000], 'uint16': [0, 65000, 7],
                          'uint64': [0, 2 ** 63, 2 ** 64 - 8, 100000]}[dtype])
        grid = [[off + v for v in row] for row in grid]
    elif dtype.startswith('float'):
        off = rng.choice([0, -1, 0.5, -2.25])
        step = rng.choice([0.25, 0.5, 1, 1.5])
        grid = [[off + step * v for v in row] for row in grid]
        if rng.random() < 0.3:      # +-inf / NaN cells: inf equals only inf of the same sign, NaN equals nothing
            p = rng.choice([0.05, 0.15, 0.4])
            kinds = rng.choice([['inf'], ['inf', '-inf'], ['nan'], ['inf', 'nan', '-inf']])
            grid = [[rng.choice(kinds) if rng.random() < p else v for v in row] for row in grid]
            name += '+nonfinite'
    elif dtype.startswith('int'):
        # large adjacent ids differ by 1: closer than the float tolerance rtol=1e-5, must still be distinct regions
        off = rng.choice([0, 0, -2, 7, 1000, 100000, 5000000, -300000] + ([2 ** 62, -2 ** 63] if dtype == 'int64' else [2 ** 31 - 8]))
        grid = [[off + v for v in row] for row in grid]
    else:
        off = rng.choice([0, 0, 5, 250]) if dtype == 'uint8' else rng.choice([0, 5, 250, 100000, 4000000000])
        grid = [[off + v for v in row] for row in grid]
    tr = rng.choice(TRANSFORMS) if with_tr else None
    if tr is not None and rng.random() < 0.3:
        tr = [rng.choice([-2, -1, -0.5, 0, 0.5, 1, 2, 3]) for _ in range(4)] + [rng.randint(-20, 20) / 4.0 for _ in range(2)]
        tr = [tr[0], tr[1], tr[4], tr[2], tr[3], tr[5]]
    if mask is not None and mask_dtype in ('int64', 'uint8', 'float64') and rng.random() < 0.3:
        # "include" need not be exactly 1: any truthy value (the code tests `not mask[ij]`)
        truthy = {'int64': [1, 2, -1, 255, -7], 'uint8': [1, 2, 255], 'float64': [1.0, 0.5, -2.0, 'nan', 'inf']}[mask_dtype]
        mask = [[rng.choice(truthy) if b else 0 for b in row] for row in mask]
        mkind += '+truthy'
    tr_as = 'f64'
    if tr is not None:
        u = rng.random()
        tr_as = 'f64' if u < 0.6 else 'list' if u < 0.75 else 'f32' if u < 0.85 else \
            'int' if all(float(t).is_integer() for t in tr) else 'list'
    layout = 'C' if rng.random() < 0.55 else rng.choice(LAYOUTS[1:])
    mask_layout = 'C' if (mask is None or rng.random() < 0.55) else rng.choice(LAYOUTS[1:])
    return dict(family=name, ny=ny, nx=nx, values=grid, dtype=dtype, mask=mask, mask_dtype=mask_dtype, mask_kind=mkind,
                connectivity=rng.choice([4, 8]), transform=None if tr is None else [float(t) for t in tr],
                layout=layout, mask_layout=mask_layout, transform_as=tr_as, xr='coords' if rng.random() < 0.25 else 'plain',
                **({'classes': classes} if classes is not None else {}))


# (raster dtype, mask dtype or None, with transform) — each distinct triple costs one Numba compilation (~1.5 s)
QUICK_COMBOS = [('int64', None, False), ('int64', 'bool', True), ('float64', None, True), ('float64', 'bool', False),
                ('float32', 'int64', False), ('uint8', None, False), ('int32', 'bool', False)]
THOROUGH_COMBOS = [(d, m, t) for d in INT_DTYPES + FLOAT_DTYPES for m in (None, 'bool', 'int64', 'uint8', 'float64')
                   for t in (False, True) if not (m in ('uint8', 'float64') and d in ('uint32', 'int32'))]


EXTRA_DTYPES = ['int8', 'int16', 'uint16', 'uint64', 'bool']
THOROUGH_COMBOS += [(d, m, t) for d in EXTRA_DTYPES for (m, t) in ((None, False), ('bool', True), ('int64', False))]
# further mask widths (thorough only: each is a Numba compilation)
THOROUGH_COMBOS += [('int64', m, False) for m in ('int8', 'uint16', 'uint64', 'float32', 'int32')]


def exhaustive_cases(max_cells, max_cells_masked):
    """every 0/1 raster of every shape with <= max_cells cells, both connectivities; with a mask: every
    {masked,0,1} assignment for shapes with <= max_cells_masked cells"""
    for ny in range(1, max_cells + 1):
        for nx in range(1, max_cells // ny + 1):
            n = nx * ny
            for conn in (4, 8):
                for bits in itertools.product((0, 1), repeat=n):
                    grid = [list(bits[j * nx:(j + 1) * nx]) for j in range(ny)]
                    yield dict(family='exhaustive', ny=ny, nx=nx, values=grid, dtype='int64', mask=None, mask_dtype=None,
                               mask_kind='none', connectivity=conn, transform=None)
                if n <= max_cells_masked:
                    for st in itertools.product((0, 1, 2), repeat=n):
                        grid = [[max(0, s - 1) for s in st[j * nx:(j + 1) * nx]] for j in range(ny)]
                        mask = [[1 if s > 0 else 0 for s in st[j * nx:(j + 1) * nx]] for j in range(ny)]
                        yield dict(family='exhaustive-masked', ny=ny, nx=nx, values=grid, dtype='int64', mask=mask,
                                   mask_dtype='bool', mask_kind='all', connectivity=conn, transform=None)


# ----------------------------------------------------------------------------------------------
class Watchdog:
    """The kernels are nogil Numba code: a boundary follower that never returns to its start would hang the check
    for ever.  A daemon thread turns such a hang into a reported failing input (replay file + VIOLATION line, exit 1)."""
    LIMIT = 300.0     # includes the first-call JIT compilation (10-30 s unloaded); generous so that a loaded machine never trips it
    inst = None

    def __init__(self, ctx):
        import threading
        self.ctx, self.case, self.t0 = ctx, None, 0.0
        threading.Thread(target=self.loop, daemon=True).start()

    @classmethod
    def get(cls, ctx):
        if cls.inst is None or cls.inst.ctx is not ctx:
            cls.inst = cls(ctx)
        return cls.inst

    def loop(self):
        import json
        import os
        import sys
        import time
        from harness import common
        while True:
            time.sleep(1.0)
            case = self.case
            if case is not None and time.time() - self.t0 > self.LIMIT:
                os.makedirs(os.path.join(common.VERIF, 'replays'), exist_ok=True)
                path = os.path.join(common.VERIF, 'replays', '%s-%d-hang.json' % (ID, self.ctx.seed))
                json.dump({'property': ID, 'kind': 'failing-input', 'key': None, 'seed': self.ctx.seed, 'tier': self.ctx.tier,
                           'what': 'polygonize did not return within %d s on this input (the boundary follower / merge loop '
                                   'does not terminate)' % self.LIMIT, 'case': common.jsonable(case)}, open(path, 'w'), indent=1)
                print('VIOLATION property=%s replay=%s' % (ID, path))
                print('FAIL %s tier=%s seed=%d: implementation hangs, evaluations=%d' % (ID, self.ctx.tier, self.ctx.seed,
                                                                                      self.ctx.evaluations))
                sys.stdout.flush()
                os._exit(1)

    def __enter__(self):
        import time
        self.t0 = time.time()
        return self

    def __exit__(self, *a):
        self.case = None

    def watch(self, case):
        self.case = case
        return self


def check_case(ctx, pz, case, pending, use_model=True):
    """implementation + oracle on one case; queues the model comparison"""
    ctx.case(case, nontrivial=case['mask'] is None or any(any(r) for r in case['mask']))
    wd = Watchdog.get(ctx)
    try:
        with wd.watch(case):
            col, polys = run_impl(pz, case, None)
    except Exception as e:
        ctx.violation('oracle', 'polygonize raised %s: %s' % (type(e).__name__, e), case)
        return
    key = INF_KEY if has_inf(case) else None
    if case['dtype'] == 'bool':
        if not all(isinstance(v, bool) for v in col):
            ctx.violation('oracle', 'bool raster but the returned value column holds %r' % ([type(v).__name__ for v in col][:6],),
                          dict(case, got_column=col))
    elif not case['dtype'].startswith('float') and not all(isinstance(v, int) and not isinstance(v, bool) for v in col):
        ctx.violation('oracle', 'integer raster (%s) but the returned value column holds non-integer entries %r' % (
            case['dtype'], [type(v).__name__ for v in col][:6]), dict(case, got_column=col))
    bad = oracle_polygons(case, col, polys)
    if bad:
        ctx.violation('oracle', bad, dict(case, got_column=col, got_polygons=polys), key=key)
    impl_t = None
    case_m = case
    if case['transform'] is not None:
        try:
            with wd.watch(case):
                colt, polyst = run_impl(pz, case, case['transform'])
        except Exception as e:
            ctx.violation('oracle', 'polygonize with transform raised %s: %s' % (type(e).__name__, e), case)
            return
        impl_t = (colt, polyst)
        seen = [float(np.float32(x)) for x in case['transform']] if case.get('transform_as') == 'f32' else [float(x) for x in case['transform']]
        try:
            pow2_scale(seen)
            dyadic = True
        except ValueError:
            dyadic = False
        if dyadic:
            t = [Fraction(x) for x in seen]
            exp = [[[(t[0] * Fraction(x) + t[1] * Fraction(y) + t[2], t[3] * Fraction(x) + t[4] * Fraction(y) + t[5])
                     for x, y in ring] for ring in rings] for rings in polys]
            got = [[[(Fraction(x), Fraction(y)) for x, y in ring] for ring in rings] for rings in polyst]
            same_pts = got == exp
        else:       # non-dyadic coefficients: the documented formula in float64, compared up to rounding
            t = seen
            exp = [[[(t[0] * x + t[1] * y + t[2], t[3] * x + t[4] * y + t[5]) for x, y in ring] for ring in rings] for rings in polys]
            same_pts = [[len(r) for r in rings] for rings in exp] == [[len(r) for r in rings] for rings in polyst] and all(
                abs(gx - ex) <= 1e-11 * (1 + abs(ex)) and abs(gy - ey) <= 1e-11 * (1 + abs(ey))
                for re_, rg in zip(exp, polyst) for a_, b_ in zip(re_, rg) for (ex, ey), (gx, gy) in zip(a_, b_))
        case_m = dict(case, transform=seen) if dyadic else dict(case, transform=None)
        if not dyadic:
            impl_t = None
        if len(colt) != len(col) or not all(same_value(a, b) for a, b in zip(colt, col)) or not same_pts:
            ctx.violation('oracle', 'transform %r is not applied to every vertex of the untransformed output' % (case['transform'],),
                          dict(case, got_polygons=polyst, untransformed=polys))
    regions = None
    if case['nx'] >= 2 and not case.get('no_regions'):
        try:
            with wd.watch(case):
                regions = run_impl_regions(pz, case)
        except Exception as e:
            ctx.violation('correspondence', '_calculate_regions is no longer callable as (values, mask, connectivity_8, nx, ny): %s' % e, case)
        if regions is not None:
            bad = oracle_regions(case, regions)
            if bad:
                ctx.violation('oracle', '_calculate_regions: ' + bad, dict(case, got_regions=regions), key=key)
    if use_model and ctx.model is not None:
        pl, rl, vs, ts = model_lines(case_m)
        pending.append(('poly', pl, case, impl_t if impl_t is not None else (col, polys), vs, ts))
        if rl is not None and regions is not None:
            pending.append(('regions', rl, case, regions, vs, ts))


def flush(ctx, pending):
    if ctx.model is None or not pending:
        del pending[:]
        return
    outs = ctx.model.run([p[1] for p in pending])
    for (kind, line, case, impl, vs, ts), mo in zip(pending, outs):
        ctx.traces += 1
        if kind == 'poly':
            bad = compare_poly(case, impl, mo, vs, ts)
            if bad:
                ctx.violation('correspondence', bad, dict(case, model=mo[:400]), key=INF_KEY if has_inf(case) else None)
        else:
            exp = 'OK ' + ' '.join(str(r) for r in impl)
            if mo.strip() != exp.strip():
                ctx.violation('correspondence', '_calculate_regions differs: implementation %r vs model %s' % (impl, mo[:300]),
                              dict(case, model=mo[:400]), key=INF_KEY if has_inf(case) else None)
    del pending[:]


LARGE_BASES = {
    'int8': [120], 'uint8': [250], 'int16': [32760], 'uint16': [65530],
    'int32': [100000, 250000, 2 ** 24, 2 ** 31 - 3], 'uint32': [100000, 250000, 2 ** 24, 2 ** 31 - 3, 2 ** 32 - 5],
    'int64': [100000, 250000, 2 ** 24, 2 ** 31 - 3, 2 ** 32 - 5, 2 ** 53 - 2, 2 ** 63 - 4, -(2 ** 63)],
    'uint64': [250000, 2 ** 32 - 5, 2 ** 53 - 2, 2 ** 63 - 4, 2 ** 64 - 4],
}


def large_ids_stream(ctx, pz, pending):
    """appended: integer rasters of every width and signedness filled with consecutive LARGE ids (neighbours differ by 1, i.e. by far less
    than any relative float tolerance): exact equality must keep them apart and every cell's id must be recovered exactly; and the float
    twin: neighbours just inside (same class) vs just outside (different class) the documented tolerance atol=1e-8, rtol=1e-5"""
    rng = ctx.rng
    # quick: uint16 (whose ids cannot reach 1e5) only when it is this seed's extra dtype anyway, i.e. already compiled
    dtypes = (['int32', 'int64', 'uint32', 'uint64'] + (['uint16'] if EXTRA_DTYPES[ctx.seed % len(EXTRA_DTYPES)] == 'uint16' else [])) \
        if ctx.quick() else list(LARGE_BASES)
    pats = [('stripes', lambda i, j, k: i % k), ('rows', lambda i, j, k: j % k), ('checker', lambda i, j, k: (i + j) % k),
            ('random', None)]
    for dtype in dtypes:
        for bi, base in enumerate(LARGE_BASES[dtype]):
            for pi, (pname, f) in enumerate(pats):
                if ctx.quick() and pi != (bi + len(dtype)) % len(pats):
                    continue            # quick: one pattern per (dtype, base), rotating; thorough: all
                for conn in ((4, 8) if not ctx.quick() else (rng.choice([4, 8]),)):
                    k = 3
                    ny, nx = rng.choice([(3, 4), (4, 3), (2, 5), (5, 2)])
                    grid = [[base + (f(i, j, k) if f else rng.randrange(k)) for i in range(nx)] for j in range(ny)]
                    case = dict(family='large-ids', ny=ny, nx=nx, values=grid, dtype=dtype, mask=None, mask_dtype=None, mask_kind='none',
                                connectivity=conn, transform=None, no_regions=True)
                    ctx.count('large-ids/%s/%s' % (dtype, pname))
                    check_case(ctx, pz, case, pending)
        # a single column (the nx == 1 padding path) of consecutive ids (quick: only where the (dtype, bool mask) kernel is compiled anyway)
        if ctx.quick() and dtype not in ('int32', 'int64'):
            continue
        base = LARGE_BASES[dtype][-1] if LARGE_BASES[dtype][-1] > 0 else LARGE_BASES[dtype][0]
        case = dict(family='large-ids', ny=4, nx=1, values=[[base], [base + 1], [base + 2], [base + 1]], dtype=dtype, mask=None,
                    mask_dtype=None, mask_kind='none', connectivity=4, transform=None)
        ctx.count('large-ids/%s/column' % dtype)
        check_case(ctx, pz, case, pending)
    # float twin: members of a class differ by 0.009 (inside 1e-8 + 1e-5*1000), neighbouring classes by >= 0.011 (outside)
    for dtype, mk_, md in (('float64', None, None), ('float32', 'ones', 'int64')):
        for pname, f in pats[:3]:
            ny, nx = 3, 5
            cls = [[f(i, j, 3) for i in range(nx)] for j in range(ny)]
            grid = [[1000.0 + 0.02 * c + rng.choice([0.0, 0.009]) for c in row] for row in cls]
            if dtype == 'float32':
                grid = [[float(np.float32(v)) for v in row] for row in grid]
            case = dict(family='tolerance-edge', ny=ny, nx=nx, values=grid, dtype=dtype, mask=None if mk_ is None else [[1] * nx] * ny,
                        mask_dtype=md, mask_kind='none' if mk_ is None else 'all-true', connectivity=rng.choice([4, 8]), transform=None,
                        classes=cls)
            ctx.count('tolerance-edge/%s' % dtype)
            check_case(ctx, pz, case, pending)


def theme_stream(ctx, pz, pending):
    """appended AFTER the older streams (their rng draws are unchanged): layouts reversed / non-writeable per argument, float
    extremes through tolerance classes, call sequences and derived rasters, parameter / coordinate variants, degenerate rasters,
    Dask-backed arguments (must be rejected with TypeError)"""
    rng = ctx.rng
    base = [[1, 1, 2, 2, 1], [1, 3, 3, 2, 1], [1, 1, 1, 2, 2], [4, 4, 1, 1, 2]]
    bmask = [[1, 1, 0, 1, 1], [1, 1, 1, 1, 0], [0, 1, 1, 1, 1], [1, 1, 1, 0, 1]]

    def mk(family, values, dtype='int64', mask=None, mask_dtype=None, conn=4, transform=None, **extra):
        ny, nx = len(values), len(values[0])
        case = dict(family=family, ny=ny, nx=nx, values=values, dtype=dtype, mask=mask, mask_dtype=mask_dtype,
                    mask_kind='none' if mask is None else 'structured', connectivity=conn, transform=transform, **extra)
        ctx.count(family)
        return case
    # 1. memory layout: reversed views and non-writeable arrays, each argument separately
    # (each read-only combination is its own Numba signature: the mixed ones run in the thorough tier only)
    for lv, lm in (('R', None), ('R', 'C'), ('C', 'R'), ('R', 'R'), ('F', 'R'), ('RO', None), ('RO', 'RO')) + \
            ((('C', 'RO'), ('RO', 'C')) if not ctx.quick() else ()):
        check_case(ctx, pz, mk('theme/layout', base, mask=None if lm is None else bmask, mask_dtype=None if lm is None else 'bool',
                               conn=rng.choice([4, 8]), layout=lv, mask_layout=lm or 'C'), pending)
    # 2. float extremes: values not representable in float32, > 2**24 / 2**53, huge, tiny.  _is_close is a documented
    #    np.isclose-style tolerance (atol 1e-8, rtol 1e-5), so "equal" is taken per tolerance class: classes are far apart
    #    (different sign or factor >= 2), members of a class are within tolerance
    alph = [('float64', [0.1, 0.2, 0.30000000000000004]), ('float32', [0.1, 0.2, 0.3]), ('float64', [2.0 ** 24 + 1, 2.0 ** 25 + 1, 2.0 ** 53, 2.0 ** 60]),
            ('float64', [1e300, -1e300, 4e300]), ('float32', [3e38, -3e38, 1e38]), ('float64', [1.0, 2.0 ** -30, -3.0]),
            ('float64', [2.0 ** 100, 2.0 ** -120, -(2.0 ** 100)]), ('float32', [16777216.0, 3.0, -16777216.0])]
    for dtype, vals_ in alph:
        cls = g_blobs(rng, 4, 5, len(vals_))
        if 2.0 ** -30 in vals_ or 2.0 ** -120 in vals_:     # everything below atol = 1e-8 is one class: add a second tiny member
            vals2 = {1: [2.0 ** -30, 2.0 ** -40, 0.0], 2: [-3.0]} if 2.0 ** -30 in vals_ else {1: [2.0 ** -120, 2.0 ** -100, -(2.0 ** -110)], 2: [-(2.0 ** 100)]}
            grid = [[(vals_[c] if c == 0 else rng.choice(vals2[c])) for c in row] for row in cls]
        else:
            grid = [[vals_[c] for c in row] for row in cls]
        if dtype == 'float32':
            grid = [[float(np.float32(v)) for v in row] for row in grid]
        check_case(ctx, pz, mk('theme/float-extremes', grid, dtype=dtype, conn=rng.choice([4, 8]), classes=cls), pending)
    # 7. degenerate rasters
    check_case(ctx, pz, mk('theme/degenerate', [['nan'] * 3] * 3, dtype='float64'), pending)
    check_case(ctx, pz, mk('theme/degenerate', [['inf'] * 3, ['inf', '-inf', 'inf']], dtype='float64', conn=8), pending)
    check_case(ctx, pz, mk('theme/degenerate', [[7] * 4] * 4, mask=[[0] * 4, [0, 0, 1, 0], [0] * 4, [0] * 4], mask_dtype='bool'), pending)
    check_case(ctx, pz, mk('theme/degenerate', [[7, 8], [8, 7]], mask=[[0, 0], [0, 0]], mask_dtype='bool', conn=8), pending)
    check_case(ctx, pz, mk('theme/degenerate', [[5, 5], [5, 5]], conn=8), pending)
    # 5./6. parameters and coordinates: column_name (unused for numpy output) at non-default / falsy values, transform as tuple
    for cn in ('', 'value', None):
        check_case(ctx, pz, mk('theme/params', base, mask=bmask, mask_dtype='bool', conn=8, column_name=cn, xr='coords'), pending)
    # 4. call sequences: repeated call, interleaved connectivity / dtype specialisations, rasters derived from processed ones
    a = np.array(base, dtype='int64')
    da = xr.DataArray(a, dims=['y', 'x'], coords={'y': [-1e6 * j for j in range(4)], 'x': [1e6 + 0.5 * i for i in range(5)]}, attrs={'res': (0.5, 1e6)})

    def out(d, **kw):
        c, p = pz.polygonize(d, **kw)
        return [v.item() if hasattr(v, 'item') else v for v in c], [[np.asarray(r).tolist() for r in rings] for rings in p]
    case = dict(family='theme/sequence', label='repeat / interleave')
    ctx.case(case)
    ctx.count('theme/sequence')
    try:
        r4 = out(da)
        r8 = out(da, connectivity=8)
        rf = out(da.astype('float64'))
        if out(da) != r4 or out(da, connectivity=8) != r8 or out(da.copy(), connectivity=4) != r4 or \
                out(da.assign_coords(x=[9.0, 8, 7, 6, 5])) != r4 or rf[1] != r4[1] or [float(v) for v in r4[0]] != rf[0] or \
                out(xr.DataArray(a.astype('float64')).astype('int64')) != r4:
            ctx.violation('oracle', 'polygonize is not repeatable: the same raster gave different polygons on a repeated / interleaved / '
                          'derived call (copy, astype, assign_coords)', dict(case, values=base))
        if da.attrs != {'res': (0.5, 1e6)} or not (da.values == a).all():
            ctx.violation('oracle', 'polygonize modified the attrs / data of its input', dict(case, values=base))
        # a raster sliced out of a processed one: polygons of the slice, in the slice's own pixel frame
        sub = da.isel(y=slice(1, None), x=slice(0, 4))
        cs, ps = out(sub)
        sl = [row[0:4] for row in base[1:]]
        bad = oracle_polygons(dict(values=sl, mask=None, ny=3, nx=4, connectivity=4), cs, [[[tuple(p) for p in r] for r in rings] for rings in ps])
        if bad:
            ctx.violation('oracle', 'raster sliced from a processed one: ' + bad, dict(family='fixed', ny=3, nx=4, values=sl, dtype='int64', mask=None,
                                                                                     mask_dtype=None, mask_kind='none', connectivity=4, transform=None))
    except Exception as e:
        ctx.violation('oracle', 'call sequence raised %s: %s' % (type(e).__name__, str(e)[:200]), dict(case, values=base))
    # 3. Dask-backed arguments are not supported: they must be rejected (TypeError), raster and mask each in turn
    try:
        import dask.array as dsa
    except Exception:
        dsa = None
    if dsa is not None:
        dk = xr.DataArray(dsa.from_array(a, chunks=((1, 3), (2, 2, 1))))
        dkm = xr.DataArray(dsa.from_array(np.array(bmask, dtype=bool), chunks=(2, 5)))
        for label, args, kw in (('dask raster', (dk,), {}), ('dask raster + dask mask', (dk,), dict(mask=dkm)),
                                ('numpy raster + dask mask', (xr.DataArray(a),), dict(mask=dkm)),
                                ('dask raster + numpy mask', (dk,), dict(mask=xr.DataArray(np.array(bmask, dtype=bool))))):
            case = dict(family='theme/dask', label=label)
            ctx.case(case)
            ctx.count('theme/dask')
            try:
                pz.polygonize(*args, **kw)
                ctx.violation('oracle', 'polygonize accepted a %s (documented: NumPy-backed only, must raise TypeError)' % label, case)
            except TypeError:
                pass
            except Exception as e:
                ctx.violation('oracle', 'polygonize raised %s instead of TypeError for a %s: %s' % (type(e).__name__, label, str(e)[:160]), case)


def check_malformed(ctx, pz, only=None):
    """arguments outside the documented domain must be rejected (ValueError), never silently reinterpreted;
    4.0 / 8.0 compare equal to 4 / 8 and behave like them"""
    base = np.array([[1, 1, 2], [1, 2, 2]])
    da = xr.DataArray(base)
    bad = [('connectivity=%r' % (c,), dict(connectivity=c)) for c in (0, 1, 6, 16, -8, '8', None, True, 4.5)]
    bad += [('mask shape (3, 2)', dict(mask=xr.DataArray(np.ones((3, 2), dtype=bool)))),
            ('mask shape (2,)', dict(mask=xr.DataArray(np.ones((2,), dtype=bool)))),
            ('transform length 5', dict(transform=[1, 0, 0, 0, 1])), ('transform length 7', dict(transform=[1, 0, 0, 0, 1, 0, 0])),
            ('transform shape (2, 3)', dict(transform=np.array([[1, 0, 0], [0, 1, 0]]))),
            ('return_type shapely', dict(return_type='shapely')), ('return_type NUMPY', dict(return_type='NUMPY'))]
    rasters = [('raster ndim 3', np.zeros((2, 2, 2))), ('raster ndim 1', np.zeros((4,))), ('raster shape (0, 3)', np.zeros((0, 3))),
               ('raster shape (3, 0)', np.zeros((3, 0)))]
    for label, kw in bad + [(l, None) for l, _ in rasters]:
        if only is not None and label != only:
            continue
        case = dict(family='malformed', label=label)
        ctx.case(case)
        ctx.count('malformed')
        try:
            if kw is None:
                pz.polygonize(xr.DataArray(dict(rasters)[label]))
            else:
                pz.polygonize(da, **kw)
            ctx.violation('oracle', 'polygonize accepted %s (must raise ValueError)' % label, case)
        except ValueError:
            pass
        except Exception as e:
            ctx.violation('oracle', 'polygonize raised %s instead of ValueError for %s: %s' % (type(e).__name__, label, str(e)[:200]), case)
    if only is None:
        for c in (4.0, 8.0):
            got = pz.polygonize(xr.DataArray(np.array([[1, 2], [2, 1]])), connectivity=c)
            ref = pz.polygonize(xr.DataArray(np.array([[1, 2], [2, 1]])), connectivity=int(c))
            if len(got[1]) != len(ref[1]):
                ctx.violation('oracle', 'connectivity=%r gives %d polygons, connectivity=%d gives %d' % (c, len(got[1]), int(c), len(ref[1])),
                              dict(family='malformed', label='connectivity=%r' % c))


FIXED = [
    # named hard cases: 8-connected pinch, diamond with enclosed centre, U needing a two-level merge, hole on the border
    dict(values=[[1, 2], [2, 1]]), dict(values=[[0, 1, 0], [1, 0, 1], [0, 1, 0]]),
    dict(values=[[1, 0, 1, 0, 1], [1, 0, 1, 0, 1], [1, 1, 1, 0, 1], [1, 1, 1, 1, 1]]),
    dict(values=[[1, 0, 1], [1, 1, 1]]), dict(values=[[1, 1, 1], [1, 0, 1], [1, 1, 1]]),
    dict(values=[[1, 1, 1, 1, 1], [1, 0, 0, 0, 1], [1, 0, 1, 0, 1], [1, 0, 0, 0, 1], [1, 1, 1, 1, 1]]),
    dict(values=[[5]]), dict(values=[[1, 1, 2, 2, 1]]), dict(values=[[1], [1], [2], [1]]),
    dict(values=[[0, 0, 1], [0, 1, 0], [1, 0, 0]]), dict(values=[[1, 0, 0], [0, 1, 0], [0, 0, 1]]),
    dict(values=[[1, 0, 1, 0, 1, 0, 1], [1, 0, 1, 0, 1, 0, 1], [1, 1, 1, 0, 1, 1, 1], [0, 0, 0, 0, 0, 0, 0], [1, 0, 1, 0, 1, 0, 1], [1, 1, 1, 1, 1, 1, 1]]),
]


NONFINITE_FIXED = [[[1.0, 'inf']], [['inf', 1.0]], [['inf', 'inf']], [['nan', 'nan']], [[1.0, 'nan', 1.0]],
                   [[1.0, 2.0], ['inf', 2.0]], [['-inf', 'inf'], ['inf', '-inf']], [[0.5], ['inf'], ['inf'], [0.5]],
                   [[1.0, 1.0, 1.0], [1.0, 'inf', 1.0], [1.0, 1.0, 1.0]]]


def run(ctx):
    pz = _impl()
    rng = ctx.rng
    pending = []
    combos = QUICK_COMBOS if ctx.quick() else THOROUGH_COMBOS
    if ctx.quick():     # one further dtype per seed (each costs a Numba compilation): int8, int16, uint16, uint64, bool over seeds
        combos = combos + [(EXTRA_DTYPES[ctx.seed % len(EXTRA_DTYPES)], None, False)] * 2
    check_malformed(ctx, pz)
    # > 128 provisional region ids below a maze: region_lookup is resized twice
    for conn in (4, 8):
        case = dict(family='growth2', ny=18, nx=12, values=g_growth(rng, 18, 12, 2, ids=140), dtype='int64', mask=None, mask_dtype=None,
                    mask_kind='none', connectivity=conn, transform=None)
        ctx.count('growth2/conn%d' % conn)
        check_case(ctx, pz, case, pending)
    for v in NONFINITE_FIXED:
        for conn in (4, 8):
            case = dict(family='fixed+nonfinite', ny=len(v), nx=len(v[0]), values=v, dtype='float64', mask=None, mask_dtype=None,
                        mask_kind='none', connectivity=conn, transform=None)
            ctx.count('fixed+nonfinite/conn%d' % conn)
            check_case(ctx, pz, case, pending)
    for f in FIXED:
        for conn in (4, 8):
            for mk in (None, 'bool'):
                v = f['values']
                ny, nx = len(v), len(v[0])
                mask = None if mk is None else [[0 if (i + 2 * j) % 5 == 4 else 1 for i in range(nx)] for j in range(ny)]
                case = dict(family='fixed', ny=ny, nx=nx, values=v, dtype='int64', mask=mask, mask_dtype=mk,
                            mask_kind='none' if mk is None else 'structured', connectivity=conn, transform=None)
                ctx.count('fixed/conn%d/%s' % (conn, 'mask' if mk else 'nomask'))
                check_case(ctx, pz, case, pending)
    # every catalogued transform (pure translations, scales, flips, rotations, shears, degenerate) on one raster with a hole
    for tr in TRANSFORMS:
        case = dict(family='transform', ny=4, nx=5, values=[[0.5, 0.5, 0.5, 1.5, 1.5], [0.5, 1.5, 0.5, 1.5, 0.5], [0.5, 0.5, 0.5, 0.5, 0.5],
                                                            [1.5, 1.5, 0.5, 2.5, 2.5]],
                    dtype='float64', mask=None, mask_dtype=None, mask_kind='none', connectivity=4, transform=[float(t) for t in tr])
        ctx.count('transform/fixed')
        check_case(ctx, pz, case, pending)
    # memory layouts: values and mask independently Fortran-ordered / transposed views / strided views
    lay_v = [[1, 1, 2, 2], [1, 3, 3, 2], [1, 1, 1, 2]]
    lay_m = [[1, 1, 0, 1], [1, 1, 1, 1], [0, 1, 1, 1]]
    for lv in LAYOUTS:
        for lm in (None,) + tuple(LAYOUTS):
            case = dict(family='layout', ny=3, nx=4, values=lay_v, dtype='int64', mask=None if lm is None else lay_m,
                        mask_dtype=None if lm is None else 'bool', mask_kind='none' if lm is None else 'structured',
                        connectivity=4, transform=None, layout=lv, mask_layout=lm or 'C')
            ctx.count('layout/values-%s/mask-%s' % (lv, lm))
            check_case(ctx, pz, case, pending)
    # single-column INTEGER rasters with large ids that differ by 1 (closer than any float tolerance), with / without mask
    for col_vals in ([100000, 100001, 100002], [5000000, 5000001, 5000001, 5000002, 5000001], [-300001, -300000], [100000]):
        for mk in (None, 'bool'):
            for conn in (4, 8):
                nyc = len(col_vals)
                case = dict(family='column-large-ids', ny=nyc, nx=1, values=[[v] for v in col_vals], dtype='int64',
                            mask=None if mk is None else [[1] for _ in col_vals], mask_dtype=mk,
                            mask_kind='none' if mk is None else 'all-true', connectivity=conn, transform=None)
                ctx.count('column-large-ids/%s' % ('mask' if mk else 'nomask'))
                check_case(ctx, pz, case, pending)
    for N in (63, 64, 128):
        for kind in (0, 1):
            for conn in (4, 8):
                v = g_lastslot(rng, N=N, kind=kind, v0=kind)
                case = dict(family='last-slot', ny=2, nx=N, values=v, dtype='int64', mask=None, mask_dtype=None, mask_kind='none',
                            connectivity=conn, transform=None)
                ctx.count('last-slot/N=%d/conn%d' % (N, conn))
                check_case(ctx, pz, case, pending)
    n = 2100 if ctx.quick() else 20000
    for t in range(n):
        case = gen_case(rng, combos, thorough=not ctx.quick())
        ctx.count('%s/conn%d/%s/%s/mask-%s%s' % (case['family'], case['connectivity'],
                                                 'col' if case['nx'] == 1 else 'row' if case['ny'] == 1 else 'grid',
                                                 'float' if case['dtype'].startswith('f') else 'int', case['mask_kind'],
                                                 '/tr' if case['transform'] else ''))
        check_case(ctx, pz, case, pending)
        if len(pending) >= 2000:
            flush(ctx, pending)
    flush(ctx, pending)
    # exhaustive sub-domain (the python side of the bounded Coq theorem: same domain against the REAL code)
    mc, mcm = (7, 5) if ctx.quick() else (11, 8)
    for case in exhaustive_cases(mc, mcm):
        ctx.count('%s/%dx%d' % (case['family'], case['ny'], case['nx']))
        check_case(ctx, pz, case, pending)
        if len(pending) >= 4000:
            flush(ctx, pending)
    flush(ctx, pending)
    theme_stream(ctx, pz, pending)
    flush(ctx, pending)
    large_ids_stream(ctx, pz, pending)
    flush(ctx, pending)
    ctx.exhaustive = False
    ctx.notes.append('exhaustive sub-domain: every 0/1 raster of every shape with <= %d cells and every {masked,0,1} '
                     'raster of every shape with <= %d cells, both connectivities, against the implementation, the oracle and the model' % (mc, mcm))


def search(ctx):
    """an obligation or the correspondence broke and no failing input was seen: run the oracle on many more cases"""
    pz = _impl()
    pending = []
    old_model = ctx.model
    ctx.model = None
    try:
        for t in range(30000):
            check_case(ctx, pz, gen_case(ctx.rng, QUICK_COMBOS + [(d, None, False) for d in EXTRA_DTYPES], big=0.15, thorough=True),
                       pending, use_model=False)
            if any(v['kind'] == 'oracle' for v in ctx.violations):
                break
        for case in exhaustive_cases(12, 8):
            check_case(ctx, pz, case, pending, use_model=False)
            if any(v['kind'] == 'oracle' for v in ctx.violations):
                break
    finally:
        ctx.model = old_model


def replay_case(ctx, case):
    pz = _impl()
    if case.get('family') == 'malformed':
        check_malformed(ctx, pz, only=case.get('label'))
        return
    case = {k: v for k, v in case.items() if not k.startswith('got_') and k not in ('untransformed', 'model')}
    pending = []
    check_case(ctx, pz, case, pending)
    flush(ctx, pending)
