"""C09 — focal results are statistics of exactly the cells under the kernel.
Correspondence: xrspatial.focal (mean, apply, focal_stats, hotspots, _calc_hotspots_numpy) and
xrspatial.convolution (convolution_2d, custom_kernel) vs the extracted Coq model coq/C09/Model.v;
oracle: the property text evaluated directly with fractions.Fraction."""
import ast
import math
import os
from fractions import Fraction

ID = 'C09'
OCAML_UTILS = ['zio.ml']
OCAML_PACKAGES = ['coq-core.kernel']
OCAML_FLAGS = '-rectypes -thread'

RULE = ('EXACT stream (model at the exact instance, small-integer / dyadic data, plus a Fraction oracle): focal.apply: every odd kernel '
        'shape 1x1..7x7 (16 shapes) x 7 built-in + 5 jitted user reducers (nanmax-nanmin, count of non-NaN, '
        'count of NaN, first element, index-weighted sum) on random rasters 1x1..8x8 (small integers / quarter-integers / all-distinct '
        'values, NaN density 0..0.6, float64/float32/int32/int64), random asymmetric 0/1 kernels incl. one-sided ones, entries that are '
        'not 1 (2, 0.5, -1), kernels larger than the raster, one-cell kernels at every offset; thorough tier additionally ALL 512 0/1 '
        'kernels of shape 3x3 and all of shape 1x3/3x1/1x5/5x1 with the index-weighted reducer. DASK stream: apply, focal_stats, '
        'convolution_2d, hotspots and mean (passes 0..3, excludes) on Dask-backed rasters in six chunk layouts (single chunk, one block '
        'tall x several wide, several tall x one wide, 1-cell chunks, uneven chunks, regular blocks), same oracle and model as NumPy. '
        'AUDIT stream (corners of the quantifier): rasters 1x1 / 1xN / Nx1 / smaller than the kernel for every function; kernel '
        'shapes up to 7x7 incl. 7x3 and 1x1; kernels with entries that are not 0/1 and of int8/uint8/bool/float32 dtype; the default '
        'reducer; every integer width signed and unsigned plus float32 (negative/zero/fractional weights on integer rasters for '
        'convolution); passes 4..12; excludes lists with 1-4 entries in every order incl. NaN first/middle/last and duplicates; '
        'stats_funcs reversed, rotated, single, with duplicates; hotspots with |mean|/std 1e2..1e6, constant and all-NaN rasters; '
        'the `name` argument of apply / mean / convolution_2d. '
        'THEME stream (appended last): every memory layout (Fortran, transposed view, strided view [::2, ::3], reversed view, '
        'non-writeable) of the raster and of the kernel separately; excludes / passes handed over as python ints, tuples, numpy '
        'arrays of float32 / int16 / float64 and numpy scalars; integer rasters at the limits of int8/uint8/int16/uint16 (exact '
        'stream) and with values 2^24+1 .. 2^53-1 in int32/int64/uint32/uint64 (float stream, bit-for-bit); excludes equal to and one '
        'ulp (float32 and float64) around float32 cell values, 1e-9 offsets; several lazy Dask results from ONE dask.compute and a '
        'lazy result computed after other library calls; call sequences (repeat, other kernel, again) on derived rasters (slice '
        'view, copy, astype float32, stepped/reversed view) wrapped in DataArrays with descending / fractional / 1e6-spaced / lat-lon '
        'coordinates, attrs and a name, checking that results carry the dims / coords / attrs and that data, coords, attrs, name and '
        'the mutable default arguments are untouched; name = \'\', None, 0; stats_funcs as tuple / ndarray; kernels of 315 cells; '
        'all-NaN, all-equal and single-valid-cell rasters for every function, kernels without any 1-entry. '
        'focal_stats: default and random sub-lists/orders of the 7 statistics. focal.mean: passes 0..3 x excludes [nan] / [nan,v] / '
        '[v] / [v,w] / [v,nan,w]. convolution_2d: dyadic and integer weighted kernels of every odd shape up to 5x7, rasters smaller than '
        'the kernel included. _calc_hotspots_numpy: z-scores at, one ulp (float64 and float32) below and above every ladder constant, '
        'both signs, +-0, NaN, +-inf. hotspots: rasters with +-1000 clusters, 0/1 kernels, constant rasters, negation. custom_kernel: '
        'all shapes 1..7 (11) squared plus non-ndarray input. '
        'FLOAT stream (the SAME model definitions at the float instance, compared BIT-FOR-BIT): random non-integer rasters 1x1..8x8 of '
        'seven kinds (N(0,100); magnitudes 1e-20..1e20; 1e25..1e38.4 = float32 overflow; 1e-46..1e-30 = float32 subnormals/underflow; '
        '1000 +- 1e-3 = cancellation; +-2^30/2^60/2^90 cells among ordinary values with exact weights, so that the summation ORDER decides the float32 result), 12% NaN, 2% +-inf, float64 and float32 input: focal.apply for the 7 built-in statistics x 12 kernel '
        'shapes, focal_stats, focal.mean passes 0..3 with excludes taken from the data, convolution_2d with random real weights '
        '(1e-3..1e3), _calc_hotspots_numpy on float32 z-scores, the full hotspots pipeline, and np.nanmean/np.nanstd of the float32 '
        'raster against the model of NumPy\'s pairwise summation. A case is non-trivial when the raster has a non-NaN cell (hotspots: is '
        'not constant); cases are distinct by their JSON encoding.')
TRUSTED = [
    'EXACT stream: cell values are exact rationals with an explicit NaN (option Q); the generated data are small integers / dyadic '
    'fractions so that every float32/float64 sum of the implementation is exact and only the final store rounds (mean, var, std, '
    'passes >= 2 of focal.mean compare with a stated tolerance: 4e-6 relative for float32 results, 1e-9 for float64); the exact '
    'instance has no infinities (x/0 = NaN); hotspots cells are skipped where the exact |z| is closer to a threshold than the forward '
    'error bound of the float32 evaluation (formula in oracle_hotspots; it grows with |mean|/std, x3 on Dask whose reductions are '
    'chunked), the float stream covers those rasters bit-for-bit; focal.mean with more than 3 passes is checked by the oracle and the '
    'float stream only (the exact model keeps unreduced fractions); +-inf z-scores are fed '
    'as +-2^70; x ** 0.5 is the Section variable qsqrt there (theorems hold for every function; the driver passes the double sqrt)',
    'FLOAT stream: binary32 = Coq SpecFloat operations at (prec 24, emax 128), binary64 = PrimFloat (hardware doubles in the extracted '
    'OCaml via ExtrOCamlFloats); NO tolerance anywhere: every cell is compared bit-for-bit (any NaN = any NaN; signed zeros and '
    'infinities must agree). Embedding assumptions: Numba compiles the kernels without fast-math / FMA contraction; `x ** 0.5` is '
    'modelled as the correctly rounded sqrt (LLVM turns pow(x, 0.5) into sqrt; 200000 random doubles agreed); a float literal of the '
    'source is its exact rational value (Generated.v) converted by an exact division',
    'NumPy primitives modelled, not verified: np.nanmean / np.nanstd of the float32 raster in hotspots = _replace_nan + np.sum + '
    '_divide_by_count as in numpy/lib/_nanfunctions_impl.py with the pairwise summation of loops_utils.h.src for a contiguous array '
    'of at most 128 elements (plain loop below 8 elements, otherwise 8 running accumulators combined as ((r0+r1)+(r2+r3))+((r4+r5)+'
    '(r6+r7)) plus the tail) — reproduced bit-for-bit on every generated raster (<= 64 cells), not a tolerance; rasters above 128 '
    'cells (recursive splitting) are outside the model; kernel.sum() is a sequential float64 sum (exact for the 0/1 kernels hotspots '
    'documents); astype(float32) = round-to-nearest-even',
    'Numba\'s np.nanmean/nansum/nanvar/nanstd/nanmin/nanmax are modelled from their Numba source (arraymath.py), not verified; '
    'np.nditer order is taken to be row-major (C-ordered kernels)',
    'the user reducers of the exact stream are jitted Python functions whose Gallina twins (Model.u_*) were written by hand',
]
ASSUMPTIONS = ['NumPy and Dask-with-NumPy backends (CuPy not covered)',
               'float16 rasters are outside the domain: Numba has no float16 support on the CPU (apply / focal_stats / convolution_2d raise '
               'NotImplementedError: float16); bool rasters are refused by hotspots (documented ValueError)',
               'rasters have at least one row and one column and are rectangular',
               'kernels are C-ordered 2-D ndarrays; for hotspots 0/1 kernels with kernel.sum() != 0 and rasters of at most 128 cells',
               'focal.mean: `excludes` is a non-empty list of floats (Numba cannot type an empty or mixed int/float tuple)',
               'integer rasters are covered by the exact stream only (the float stream feeds float64 / float32 arrays)']
PARTIAL = [
    'the float instance is tied to the code by bit-exact correspondence, not by theorems about rounding: the structural theorems '
    '(window contents, focal_stats layers, mean block / passes / pass-through, convolution window and border, hotspot value set) hold '
    'for EVERY arithmetic instance incl. the float one; the arithmetic-content theorems (min/max bounds, sum/count, NaN-iff of the '
    'convolution, threshold ladder, negation symmetry) are proved for the exact instance only; NaN propagation of the convolution is '
    'proved for every NaN-absorbing instance (C09_conv_nan_propagates), but `nan_absorbing FloatArith` itself is not discharged (it '
    'needs the FloatAxioms of PrimFloat)',
    'hotspots(-X) = -hotspots(X): proved at the exact instance for sum/count global reductions (C09_hotspots_negate) and for any '
    'reductions that are odd/even under negation (C09_hotspots_negate_any_reduction); not proved for the modelled NumPy pairwise '
    'order (there it is the exact metamorphic test on the implementation) nor at the float instance (IEEE negation symmetry not formalised)',
    'kernels of even shape read outside the kernel array in _apply_numpy/_convolve_2d_numpy (undefined behaviour under Numba); the '
    'theorems assume odd shapes, which focal.apply/focal_stats enforce through custom_kernel; convolution_2d and hotspots do not validate',
]
LEVEL_TEXT = ('The kernels are written ONCE over an arithmetic record (coq/C09/Arith.v) and used at two instances: exact (option Q) for the '
              'theorems and float (SpecFloat binary32 + PrimFloat binary64, Numba\'s promotions spelled out as widen/narrow) for a bit-for-bit '
              'correspondence on random float data. Proved for all raster sizes, all odd kernel shapes (non-square, asymmetric, larger than '
              'the raster) and EVERY arithmetic instance: each focal.apply cell is the reducer applied to the window whose entry (i,j) is '
              'data[y+i-hr][x+j-hc] if inside the raster and kernel[i][j]==1, else NaN (loop invariant over the stores into the re-filled '
              'scratch buffer, any cell type, any reducer); focal_stats layer k is apply with the reducer named by stats_funcs[k]; the '
              'nan-reducers loop over exactly the non-NaN cells under the kernel; focal.mean is Numba\'s nanmean loop over the clipped 3x3 '
              'block, excluded values pass through, passes = iteration; convolution_2d is the row-major float64-accumulated weighted sum '
              'over the full window rounded once, NaN on the border; hotspot values lie in {0,+-90,+-95,+-99}. Proved at the exact instance: '
              'nanmean/nanvar = sum/count formulas, nanmin/nanmax bounds, convolution NaN iff a NaN under the window, thresholds '
              '1.65/1.96/2.58 (constants regenerated from the source), oddness in z and hotspots(-X) = -hotspots(X) for the whole pipeline; '
              'custom_kernel accepts exactly odd x odd ndarrays. 23 theorems, all closed under the global context (no axioms). '
              'Correspondence: exact stream + Fraction oracle (all statistics, five user reducers, passes, excludes, weighted kernels, '
              'Dask chunks) and float stream with no tolerance (NaN/inf/overflow/subnormal data, incl. NumPy\'s pairwise float32 nanmean/nanstd).')
LEVEL_NOTE = ('Trusted: Coq kernel, extraction (ExtrOCamlFloats: PrimFloat = hardware doubles), the OCaml driver, the hand-written model of '
              'the Numba kernels, of Numba\'s nan-reducers and of NumPy\'s pairwise float32 sum / _divide_by_count, the assumptions that '
              'Numba emits IEEE operations without contraction and sqrt for x**0.5, the exact-rational embedding of the exact stream '
              '(stated tolerances for mean/var/std there), the fail-closed AST translator producing Generated.v (hotspot ladder, '
              'statistic table, defaults), the Python harness and oracle.')

# ---------------------------------------------------------------------------------------------
# facts(): fail-closed translator  /repo/xrspatial/focal.py  ->  coq/C09/Generated.v
# ---------------------------------------------------------------------------------------------
HOTSPOT_SKELETON = '''def _calc_hotspots_numpy(z_array):
    out = np.zeros_like(z_array, dtype=np.int8)
    rows, cols = z_array.shape
    for y in prange(rows):
        for x in prange(cols):
            zscore = z_array[y, x]
            p_value = K0
            if abs(zscore) >= K1:
                p_value = K2
            elif abs(zscore) >= K3:
                p_value = K4
            elif abs(zscore) >= K5:
                p_value = K6
            confidence = K7
            if abs(zscore) > K8 and p_value < K9:
                confidence = K10
            elif abs(zscore) > K11 and p_value < K12:
                confidence = K13
            elif abs(zscore) > K14 and p_value < K15:
                confidence = K16
            hot_cold = K17
            if zscore > K18:
                hot_cold = K19
            elif zscore < K20:
                hot_cold = -K21
            out[y, x] = hot_cold * confidence
    return out'''

CALC_BODIES = {
    'return np.nanmean(array)': 'PNanmean',
    'return np.nansum(array)': 'PNansum',
    'return np.nanmin(array)': 'PNanmin',
    'return np.nanmax(array)': 'PNanmax',
    'return np.nanstd(array)': 'PNanstd',
    'return np.nanvar(array)': 'PNanvar',
    'value_min = _calc_min(array)\nvalue_max = _calc_max(array)\nreturn value_max - value_min': 'PRangeOfMinMax',
}


class _Consts(ast.NodeTransformer):
    def __init__(self):
        self.vals = []

    def visit_Constant(self, node):
        if isinstance(node.value, (int, float)) and not isinstance(node.value, bool):
            self.vals.append(node.value)
            return ast.copy_location(ast.Name(id='K%d' % (len(self.vals) - 1), ctx=ast.Load()), node)
        return node


def _q(v):
    """exact value of a Python int/float literal as a Coq Q term"""
    if isinstance(v, float):
        if math.isnan(v) or math.isinf(v):
            raise ValueError('non-finite constant %r' % v)
        n, d = v.as_integer_ratio()
    else:
        n, d = int(v), 1
    return '(%s # %d)' % (('(%d)' % n) if n < 0 else str(n), d)


def _funcs(tree):
    return {n.name: n for n in tree.body if isinstance(n, ast.FunctionDef)}


def facts(repo):
    src = open(os.path.join(repo, 'xrspatial', 'focal.py')).read()
    tree = ast.parse(src)
    fs = _funcs(tree)
    # ---- hotspot ladder ------------------------------------------------------------------
    if '_calc_hotspots_numpy' not in fs:
        raise ValueError('_calc_hotspots_numpy not found')
    fn = fs['_calc_hotspots_numpy']
    fn.decorator_list = []
    tr = _Consts()
    sk = ast.unparse(ast.fix_missing_locations(tr.visit(fn)))
    if sk != HOTSPOT_SKELETON:
        raise ValueError('_calc_hotspots_numpy no longer has the modelled control structure:\n' + sk)
    k = tr.vals
    if len(k) != 22:
        raise ValueError('unexpected number of constants in _calc_hotspots_numpy: %r' % (k,))
    for idx, want in ((0, 1.0), (7, 0), (17, 0), (18, 0), (19, 1), (20, 0), (21, 1)):
        if k[idx] != want or type(k[idx]) is not type(want):
            raise ValueError('constant #%d of _calc_hotspots_numpy is %r, the model assumes %r' % (idx, k[idx], want))
    for idx in (10, 13, 16):
        if not isinstance(k[idx], int):
            raise ValueError('confidence constant #%d is not an int: %r' % (idx, k[idx]))
    # ---- name -> reducer table of _focal_stats_cpu, and the bodies of the _calc_* reducers ---
    prim_of = {}
    for name, node in fs.items():
        if name.startswith('_calc_') and name != '_calc_hotspots_numpy':
            body = '\n'.join(ast.unparse(s) for s in node.body)
            args = [a.arg for a in node.args.args]
            if args != ['array'] or body not in CALC_BODIES:
                raise ValueError('reducer %s has an unrecognised body: %r' % (name, body))
            prim_of[name] = CALC_BODIES[body]
    if '_focal_stats_cpu' not in fs:
        raise ValueError('_focal_stats_cpu not found')
    mapping = None
    for st in ast.walk(fs['_focal_stats_cpu']):
        if isinstance(st, ast.Assign) and len(st.targets) == 1 and isinstance(st.targets[0], ast.Name) \
                and st.targets[0].id == '_function_mapping':
            if not isinstance(st.value, ast.Dict):
                raise ValueError('_function_mapping is not a dict literal')
            mapping = []
            for kk, vv in zip(st.value.keys, st.value.values):
                if not (isinstance(kk, ast.Constant) and isinstance(kk.value, str) and isinstance(vv, ast.Name)):
                    raise ValueError('_function_mapping entry not of the form "name": _calc_x')
                if vv.id not in prim_of:
                    raise ValueError('_function_mapping refers to unknown reducer %s' % vv.id)
                mapping.append((kk.value, prim_of[vv.id]))
    if mapping is None:
        raise ValueError('_function_mapping not found in _focal_stats_cpu')
    sk_loop = '\n'.join(ast.unparse(s) for s in fs['_focal_stats_cpu'].body[1:])
    want_loop = ("stats_aggs = []\nfor stats in stats_funcs:\n    stats_agg = apply(agg, kernel, func=_function_mapping[stats])\n"
                 "    stats_aggs.append(stats_agg)\nstats = xr.concat(stats_aggs, pd.Index(stats_funcs, name='stats'))\nreturn stats")
    if sk_loop != want_loop:
        raise ValueError('_focal_stats_cpu no longer stacks apply(agg, kernel, func=_function_mapping[stats]) per stat:\n' + sk_loop)
    # default stats_funcs of focal_stats and default func of apply
    fsd = fs['focal_stats'].args.defaults
    if len(fsd) != 1 or not isinstance(fsd[0], ast.List) or not all(isinstance(e, ast.Constant) for e in fsd[0].elts):
        raise ValueError('focal_stats default stats_funcs not a list literal')
    default_stats = [e.value for e in fsd[0].elts]
    apd = fs['apply'].args.defaults
    if not apd or not isinstance(apd[0], ast.Name) or apd[0].id not in prim_of:
        raise ValueError('apply default func not a known reducer')
    out = []
    out.append('(* GENERATED by harness/props/c09.py facts() from xrspatial/focal.py — do not edit. *)')
    out.append('From Coq Require Import ZArith QArith List.')
    out.append('Import ListNotations.')
    out.append('Open Scope Z_scope.')
    out.append('(* primitive behind each _calc_* reducer (body of the function) *)')
    out.append('Inductive prim := PNanmean | PNansum | PNanmin | PNanmax | PNanstd | PNanvar | PRangeOfMinMax.')
    names = [n for n, _ in mapping]
    for n in names + default_stats:
        if not n.isidentifier():
            raise ValueError('statistic name %r is not an identifier' % n)
    if len(set(names)) != len(names):
        raise ValueError('duplicate keys in _function_mapping')
    for n in default_stats:
        if n not in names:
            raise ValueError('default stats_funcs entry %r is not a key of _function_mapping' % n)
    out.append('(* the keys of _function_mapping of _focal_stats_cpu, in source order *)')
    out.append('Inductive stat_name := %s.' % ' | '.join('S_' + n for n in names))
    out.append('Definition stat_code (s : stat_name) : Z := match s with %s end.' % ' | '.join(
        'S_%s => %d' % (n, i) for i, n in enumerate(names)))
    out.append('Definition function_mapping : list (stat_name * prim) :=\n  [%s].' % '; '.join(
        '(S_%s, %s)' % (n, p) for n, p in mapping))
    out.append('Definition default_stats_funcs : list stat_name := [%s].' % '; '.join('S_' + s for s in default_stats))
    out.append('Definition apply_default_func : prim := %s.' % prim_of[apd[0].id])
    out.append('(* _calc_hotspots_numpy: p-value ladder  abs(z) >= t -> p ; exact values of the float literals *)')
    out.append('Definition p_ladder : list (Q * Q) := [(%s, %s); (%s, %s); (%s, %s)].' % tuple(_q(k[i]) for i in (1, 2, 3, 4, 5, 6)))
    out.append('(* confidence ladder  abs(z) > t and p < q -> conf *)')
    out.append('Definition conf_ladder : list (Q * Q * Z) := [(%s, %s, %d); (%s, %s, %d); (%s, %s, %d)].' % (
        _q(k[8]), _q(k[9]), k[10], _q(k[11]), _q(k[12]), k[13], _q(k[14]), _q(k[15]), k[16]))
    return {'Generated.v': '\n'.join(out) + '\n'}


# ---------------------------------------------------------------------------------------------
# helpers
# ---------------------------------------------------------------------------------------------
import numpy as np          # noqa: E402
import xarray as xr         # noqa: E402

NAN = float('nan')
BUILTIN = ['mean', 'max', 'min', 'range', 'std', 'var', 'sum']
USER = ['u_range', 'u_count', 'u_nnan', 'u_first', 'u_idxsum']
ODD_SHAPES = [(r, c) for r in (1, 3, 5, 7) for c in (1, 3, 5, 7)]
THRESHOLDS_TEXT = [('2.58', 99), ('1.96', 95), ('1.65', 90)]      # from the property text

_cache = {}


def _impl():
    if 'm' not in _cache:
        from xrspatial import convolution, focal
        from xrspatial.utils import ngjit

        @ngjit
        def u_range(a):
            return np.nanmax(a) - np.nanmin(a)

        @ngjit
        def u_count(a):
            c = 0.0
            for i in range(a.shape[0]):
                for j in range(a.shape[1]):
                    if not np.isnan(a[i, j]):
                        c += 1.0
            return c

        @ngjit
        def u_nnan(a):
            c = 0.0
            for i in range(a.shape[0]):
                for j in range(a.shape[1]):
                    if np.isnan(a[i, j]):
                        c += 1.0
            return c

        @ngjit
        def u_first(a):
            return a[0, 0]

        @ngjit
        def u_idxsum(a):
            s = 0.0
            for i in range(a.shape[0]):
                for j in range(a.shape[1]):
                    v = a[i, j]
                    if not np.isnan(v):
                        s += (i * a.shape[1] + j + 1) * v
            return s
        funcs = dict(mean=focal._calc_mean, max=focal._calc_max, min=focal._calc_min, range=focal._calc_range,
                     std=focal._calc_std, var=focal._calc_var, sum=focal._calc_sum,
                     u_range=u_range, u_count=u_count, u_nnan=u_nnan, u_first=u_first, u_idxsum=u_idxsum)
        _cache['m'] = (focal, convolution, funcs)
    return _cache['m']


def isnan(v):
    return isinstance(v, float) and math.isnan(v)


def fr(v):
    """float cell -> Fraction or None (NaN)"""
    if v is None or (isinstance(v, str) and v == 'nan') or isnan(v):
        return None
    return Fraction(v)


def unjson(g):
    """replay files store NaN as the string 'nan'"""
    if isinstance(g, list):
        return [unjson(v) for v in g]
    if isinstance(g, str):
        return float(g)
    return g


def tok_int(n):
    if -(1 << 60) < n < (1 << 60):
        return str(n)
    return ('-0x%x' % -n) if n < 0 else ('0x%x' % n)


def tok(v):
    if v is None:
        return 'nan'
    v = Fraction(v)
    return tok_int(v.numerator) if v.denominator == 1 else '%s/%s' % (tok_int(v.numerator), tok_int(v.denominator))


def grid_line(g):
    """list of rows of Fraction/None -> '<rows> <cols> cells..'"""
    return '%d %d %s' % (len(g), len(g[0]) if g else 0, ' '.join(tok(v) for row in g for v in row))


def parse_cells(s):
    out = []
    for t in s.split():
        if t == 'nan':
            out.append(None)
        elif '/' in t:
            a, b = t.split('/')
            out.append(Fraction(int(a, 0), int(b, 0)))
        else:
            out.append(Fraction(int(t, 0)))
    return out


def f32(x):
    return float(np.float32(float(x)))


def same(got, exact, mode):
    """got: float produced by the implementation; exact: Fraction or None (NaN) or float approximation.
    mode 'f32': result stored in a float32 array, exact up to the final rounding;  'f64': float64, correctly rounded;
    'f32tol' / 'f64tol': the implementation's own float evaluation order differs from exact arithmetic by rounding only."""
    if exact is None or isnan(exact):
        return isnan(got)
    if isnan(got) or math.isinf(got):
        return False
    if mode == 'f32':
        return got == f32(exact)
    if mode == 'f64':
        return got == float(exact)
    e = float(exact)
    tol = 4e-6 if mode == 'f32tol' else 1e-9
    return abs(got - e) <= tol * max(1.0, abs(e))


def to_rows(a):
    return [[float(v) for v in row] for row in np.asarray(a).tolist()]


def exact_grid(rows):
    return [[fr(v) for v in row] for row in rows]


# ---------------------------------------------------------------------------------------------
# the oracle: the property text evaluated directly with Fractions
# ---------------------------------------------------------------------------------------------
def window(data, kernel, y, x):
    """the window a reducer receives: cells under the 1-entries of the kernel centred on (y, x), clipped at the
    raster edge; every other position NaN (None)"""
    rows, cols = len(data), len(data[0])
    kr, kc = len(kernel), len(kernel[0])
    hr, hc = kr // 2, kc // 2
    w = [[None] * kc for _ in range(kr)]
    for i in range(kr):
        for j in range(kc):
            yy, xx = y + i - hr, x + j - hc
            if 0 <= yy < rows and 0 <= xx < cols and kernel[i][j] == 1:
                w[i][j] = data[yy][xx]
    return w


def stat(name, w):
    """statistic of the non-NaN cells of window w (Fractions); None = NaN; ('sqrt', v) for std"""
    vals = [v for row in w for v in row if v is not None]
    n = len(vals)
    if name == 'sum':
        return sum(vals, Fraction(0))
    if name == 'u_count':
        return Fraction(n)
    if name == 'u_nnan':
        return Fraction(sum(len(r) for r in w) - n)
    if name == 'u_first':
        return w[0][0]
    if name == 'u_idxsum':
        nc = len(w[0])
        return sum(((i * nc + j + 1) * v for i, row in enumerate(w) for j, v in enumerate(row) if v is not None), Fraction(0))
    if n == 0:
        return None
    if name == 'mean':
        return sum(vals) / n
    if name == 'max':
        return max(vals)
    if name == 'min':
        return min(vals)
    if name in ('range', 'u_range'):
        return max(vals) - min(vals)
    m = sum(vals) / n
    var = sum((v - m) ** 2 for v in vals) / n
    if name == 'var':
        return var
    if name == 'std':
        return math.sqrt(var)           # float approximation, compared with tolerance
    raise KeyError(name)


def mode_of(name, store='f32'):
    return store + 'tol' if name in ('std', 'var') else store


def oracle_apply(data, kernel, name):
    return [[stat(name, window(data, kernel, y, x)) for x in range(len(data[0]))] for y in range(len(data))]


def oracle_mean(data, passes, excludes):
    rows, cols = len(data), len(data[0])
    cur = [list(r) for r in data]
    for _ in range(passes):
        nxt = [[None] * cols for _ in range(rows)]
        for y in range(rows):
            for x in range(cols):
                c = cur[y][x]
                if any((c is None and e is None) or (c is not None and e is not None and c == e) for e in excludes):
                    nxt[y][x] = c
                    continue
                vals = [cur[yy][xx] for yy in range(max(y - 1, 0), min(y + 2, rows))
                        for xx in range(max(x - 1, 0), min(x + 2, cols)) if cur[yy][xx] is not None]
                nxt[y][x] = (sum(vals) / len(vals)) if vals else None
        cur = nxt
    return cur


def oracle_conv(data, kernel):
    """kernel-weighted sum over the full window; NaN wherever the window leaves the raster"""
    rows, cols = len(data), len(data[0])
    kr, kc = len(kernel), len(kernel[0])
    hr, hc = kr // 2, kc // 2
    out = [[None] * cols for _ in range(rows)]
    for y in range(rows):
        for x in range(cols):
            if y - hr < 0 or y + hr >= rows or x - hc < 0 or x + hc >= cols:
                continue
            s = Fraction(0)
            for i in range(kr):
                for j in range(kc):
                    v = data[y + i - hr][x + j - hc]
                    if v is None:
                        s = None
                        break
                    s += kernel[i][j] * v
                if s is None:
                    break
            out[y][x] = s
    return out


def hot_class(z2sign, az2):
    """z2sign: sign of z; az2: z*z as a Fraction -> value from the ladder of the property text"""
    conf = 0
    for t, c in THRESHOLDS_TEXT:
        if az2 > Fraction(t) ** 2:
            conf = c
            break
    return z2sign * conf


def oracle_hotspots(data, kernel, slack=1.0):
    """returns grid of (value, near) — near=True when the exact |z| is closer to a threshold than the forward error
    bound B of the implementation's float32 evaluation, where its z-score may legitimately fall on the other side:
      B = 2*slack * ( 22 u M / std  +  |z| ((22 u M / std)^2 + 30 u) )  +  2e-4 |z|,   u = 2^-24, M = max |cell|
    (float32 rounding of the neighbourhood mean: u M; pairwise float32 global mean of <= 128 cells: <= 20 u M; a common
    shift e of all deviations changes the variance by e^2; 30 u covers the roundings of the squares, their sum, the
    division and the square root).  For |mean|/std ~ 1e6 the bound exceeds the thresholds and only |z| >> 2.58 is checked."""
    vals = [v for row in data for v in row if v is not None]
    n = len(vals)
    gm = sum(vals) / n
    var = sum((v - gm) ** 2 for v in vals) / n
    u = 2.0 ** -24
    e_rel = 22 * u * float(max(abs(v) for v in vals)) / math.sqrt(float(var))
    ks = sum(k for row in kernel for k in row)
    nk = [[Fraction(k) / ks for k in row] for row in kernel]
    m = oracle_conv(data, nk)
    out = []
    for row in m:
        o = []
        for v in row:
            if v is None:
                o.append((0, False))
                continue
            d = v - gm
            z2 = d * d / var
            sg = (d > 0) - (d < 0)
            az = math.sqrt(float(z2))
            bound = 2 * slack * (e_rel + az * (e_rel ** 2 + 30 * u)) + 2e-4 * az
            near = any(abs(az - float(t)) <= bound for t, _ in THRESHOLDS_TEXT)
            o.append((hot_class(sg, z2), near))
        out.append(o)
    return out


# ---------------------------------------------------------------------------------------------
# generators
# ---------------------------------------------------------------------------------------------
INT_DTYPES = ['int8', 'int16', 'int32', 'int64', 'uint8', 'uint16', 'uint32', 'uint64']
RARE_DTYPES = ['int8', 'int16', 'uint8', 'uint16', 'uint32', 'uint64']          # each costs one JIT specialisation per kernel


def is_int_dtype(dtype):
    return dtype.startswith('int') or dtype.startswith('uint')


def gen_raster(rng, rows=None, cols=None, kind=None, nanp=None, dtype=None):
    rows = rows or rng.choice([1, 2, 3, 4, 5, 6, 7, 8])
    cols = cols or rng.choice([1, 2, 3, 4, 5, 6, 7, 8])
    kind = kind or rng.choice(['int', 'int', 'quarter', 'distinct'])
    dtype = dtype or rng.choice(['float64', 'float64', 'float32', 'int32', 'int64'])
    if nanp is None:
        nanp = rng.choice([0.0, 0.1, 0.3, 0.6])
    if is_int_dtype(dtype):
        nanp = 0.0
        if kind == 'quarter':
            kind = 'int'
    n = rows * cols
    if kind == 'int':
        vals = [float(rng.randint(-20, 40)) for _ in range(n)]
    elif kind == 'quarter':
        vals = [rng.randint(-80, 160) / 4.0 for _ in range(n)]
    else:                                   # all cells different (no accidental symmetry)
        vals = [float(v) for v in rng.sample(range(-60, 200), n)]
    vals = [NAN if rng.random() < nanp else v for v in vals]
    a = np.array(vals, dtype='float64').reshape(rows, cols)
    if dtype.startswith('uint'):
        a = np.abs(a)
    if dtype in ('int8', 'uint8'):
        a = np.clip(a, -100, 120) if dtype == 'int8' else a
    a = a.astype(dtype)
    return a, dtype


def gen_chunks(rng, rows, cols, layout):
    """Dask chunk layouts: single chunk; one block tall x several wide; several tall x one wide; 1-cell chunks; uneven"""
    if layout == 'single':
        return (rows, cols)
    if layout == '1xwide':
        return (rows, rng.choice([1, 2, 3]))
    if layout == 'tallx1':
        return (rng.choice([1, 2, 3]), cols)
    if layout == 'cells':
        return (1, 1)
    if layout == 'uneven':
        def split(n):
            parts = []
            while n > 0:
                p = rng.randint(1, max(1, min(4, n)))
                parts.append(p)
                n -= p
            rng.shuffle(parts)
            return tuple(parts)
        return (split(rows), split(cols))
    return (rng.choice([2, 3, 4]), rng.choice([2, 3, 4]))


LAYOUTS = ['single', '1xwide', 'tallx1', 'cells', 'uneven', 'blocks']


def chunks_json(chunks):
    return [list(c) if isinstance(c, tuple) else c for c in chunks]


def chunks_from_json(chunks):
    return None if chunks is None else tuple(tuple(c) if isinstance(c, list) else c for c in chunks)


def gen_kernel01(rng, shape=None, style=None):
    kr, kc = shape or rng.choice(ODD_SHAPES)
    style = style or rng.choice(['rand', 'rand', 'sparse', 'full', 'corner', 'weird'])
    if style == 'full':
        k = [[1.0] * kc for _ in range(kr)]
    elif style == 'sparse':
        k = [[0.0] * kc for _ in range(kr)]
        for _ in range(rng.randint(1, 2)):
            k[rng.randrange(kr)][rng.randrange(kc)] = 1.0
    elif style == 'corner':                 # one-sided: only the upper-left part
        k = [[1.0 if (i <= kr // 2 and j <= kc // 2 and rng.random() < 0.8) else 0.0 for j in range(kc)] for i in range(kr)]
    elif style == 'weird':                  # entries that are not 1 do not belong to the kernel
        k = [[rng.choice([0.0, 1.0, 1.0, 2.0, 0.5, -1.0]) for _ in range(kc)] for _ in range(kr)]
    else:
        p = rng.choice([0.3, 0.5, 0.7])
        k = [[1.0 if rng.random() < p else 0.0 for _ in range(kc)] for _ in range(kr)]
    return k


def kernel_array(rng, k):
    a = np.array(k, dtype='float64')
    if rng.random() < 0.25 and np.all(a == np.round(a)):
        a = a.astype('int64')
    return a


# ---------------------------------------------------------------------------------------------
# running one case of each family: implementation, oracle, model line
# ---------------------------------------------------------------------------------------------
def check_grid(ctx, got, exp, modes, case, what, key=None):
    """got: rows of floats (implementation); exp: rows of Fraction/None/float; modes: one mode or a grid of modes"""
    for y, (gr, er) in enumerate(zip(got, exp)):
        for x, (g, e) in enumerate(zip(gr, er)):
            m = modes if isinstance(modes, str) else modes[y][x]
            if m == 'skip':
                continue
            if not same(g, e, m):
                ctx.violation('oracle', '%s: cell (%d,%d) is %r, the property demands %s' % (
                    what, y, x, g, 'NaN' if e is None else repr(float(e))),
                    dict(case, cell=[y, x], got=g, expected=None if e is None else float(e)), key=key)
                return False
    if len(got) != len(exp) or any(len(a) != len(b) for a, b in zip(got, exp)):
        ctx.violation('oracle', '%s: output shape differs from the raster shape' % what, case, key=key)
        return False
    return True


def kfr(karr):
    return [[Fraction(v) for v in row] for row in np.asarray(karr).tolist()]


def _backed(a, chunks):
    if chunks is None:
        return a
    import dask.array as da
    return da.from_array(a, chunks=tuple(chunks))


def _np(x):
    return x.compute() if hasattr(x, 'compute') else x


# the theme stream wraps the raster in a DataArray with coordinates / attrs and inspects the returned objects
_HOOK = {'make': None, 'post': None}


def _mk(a, chunks):
    if _HOOK['make'] is not None:
        return _HOOK['make'](a, chunks)
    return xr.DataArray(_backed(a, chunks), dims=['y', 'x'])


def _post(res):
    if _HOOK['post'] is not None:
        _HOOK['post'](res)
    return res


def kernel_untouched(ctx, karr, koracle, what, case):
    """the kernel argument must come back exactly as it went in (same dtype, same values)"""
    k = np.asarray(karr)
    if k.dtype != np.asarray(koracle).dtype or k.shape != np.asarray(koracle).shape or \
            not np.array_equal(k, koracle, equal_nan=(k.dtype.kind == 'f')):
        ctx.violation('oracle', '%s modified the kernel array it was given (%r became %r): a later call with the same kernel object '
                      'computes something else' % (what, np.asarray(koracle).tolist(), k.tolist()),
                      dict(case, kernel_after=k.tolist()))
        return False
    return True


def run_apply(ctx, pend, a, dtype, karr, fname, chunks=None, koracle=None):
    focal, conv, funcs = _impl()
    rows = to_rows(a)
    koracle = np.array(karr, copy=True) if koracle is None else koracle
    K = kfr(koracle)
    case = dict(fn='apply', func=fname, data=rows, dtype=dtype, kernel=np.asarray(koracle).tolist(), kdtype=str(karr.dtype))
    if chunks is not None:
        case['dask_chunks'] = chunks_json(chunks)
        ctx.count('apply/dask')
    ctx.case(case, nontrivial=any(not isnan(v) for r in rows for v in r))
    ctx.count('apply/%s/kernel=%dx%d' % (fname, karr.shape[0], karr.shape[1]))
    ctx.count('dtype/' + dtype)
    what = 'focal.apply(func=%s, kernel %dx%d)' % (fname, karr.shape[0], karr.shape[1])
    try:
        nm = [None, 'my_layer'][len(rows) % 2]
        agg = _mk(a, chunks)
        if fname == 'default':
            res = focal.apply(agg, karr)
            fname = 'mean'
        elif nm is None:
            res = focal.apply(agg, karr, funcs[fname])
        else:
            res = focal.apply(agg, karr, funcs[fname], name=nm)
        _post(res)
        if res.name != (nm if nm is not None and case['func'] != 'default' else 'focal_apply'):
            ctx.violation('oracle', '%s: result is named %r' % (what, res.name), case)
            return
        out = to_rows(_np(res.data))
    except Exception as e:
        ctx.violation('oracle', '%s raised %s: %s' % (what, type(e).__name__, str(e)[:200]), case)
        return
    kernel_untouched(ctx, karr, koracle, what, case)
    D = exact_grid(rows)
    check_grid(ctx, out, oracle_apply(D, K, fname), mode_of(fname), case, what)
    pend.append(('apply %s %s %s' % (fname, grid_line(D), grid_line(K)), [(out, mode_of(fname))], case, what))


def run_stats(ctx, pend, a, dtype, karr, names, chunks=None, koracle=None):
    focal, conv, funcs = _impl()
    rows = to_rows(a)
    koracle = np.array(karr, copy=True) if koracle is None else koracle
    K = kfr(koracle)
    case = dict(fn='focal_stats', stats=names, data=rows, dtype=dtype, kernel=np.asarray(koracle).tolist(), kdtype=str(karr.dtype))
    if chunks is not None:
        case['dask_chunks'] = chunks_json(chunks)
        ctx.count('focal_stats/dask')
    ctx.case(case)
    ctx.count('focal_stats/n=%d/kernel=%dx%d' % (len(names or BUILTIN), karr.shape[0], karr.shape[1]))
    what = 'focal_stats(%s, kernel %dx%d)' % (','.join(names) if names is not None else 'default', karr.shape[0], karr.shape[1])
    try:
        agg = _mk(a, chunks)
        res = focal.focal_stats(agg, karr) if names is None else focal.focal_stats(agg, karr, stats_funcs=list(names))
        _post(res)
        if chunks is not None:
            res = res.compute()
    except Exception as e:
        ctx.violation('oracle', '%s raised %s: %s' % (what, type(e).__name__, str(e)[:200]), case)
        return
    want = BUILTIN if names is None else list(names)
    labels = [str(s) for s in res.coords['stats'].values.tolist()]
    if labels != want or res.shape[0] != len(want):
        ctx.violation('oracle', '%s: layers are labelled %r, requested %r' % (what, labels, want), case)
        return
    kernel_untouched(ctx, karr, koracle, what, case)
    D = exact_grid(rows)
    layers = []
    for i, s in enumerate(want):
        out = to_rows(res.data[i])
        layers.append((out, mode_of(s)))
        if not check_grid(ctx, out, oracle_apply(D, K, s), mode_of(s), dict(case, layer=s), what + ' layer ' + s):
            return
    pend.append(('stats %d %s %s %s' % (len(want), ' '.join(want), grid_line(D), grid_line(K)), layers, case, what))


def run_mean(ctx, pend, a, dtype, passes, excludes, chunks=None, raw_excludes=None, raw_passes=None, mode=None):
    focal, conv, funcs = _impl()
    rows = to_rows(a)
    case = dict(fn='mean', passes=passes, excludes=list(excludes), data=rows, dtype=dtype)
    if chunks is not None:
        case['dask_chunks'] = chunks_json(chunks)
        ctx.count('mean/dask')
    ctx.case(case)
    ctx.count('mean/passes=%d/excludes=%s' % (passes, 'nan' if any(isnan(e) for e in excludes) else 'no-nan'))
    what = 'focal.mean(passes=%d, excludes=%r)' % (passes, excludes if raw_excludes is None else raw_excludes)
    try:
        nm = [None, 'smoothed'][(len(rows) + passes) % 2]
        agg = _mk(a, chunks)
        exo = list(excludes) if raw_excludes is None else raw_excludes       # the object handed over (list / tuple / ndarray of any dtype)
        pso = passes if raw_passes is None else raw_passes
        res = focal.mean(agg, passes=pso, excludes=exo) if nm is None else focal.mean(agg, passes=pso, excludes=exo, name=nm)
        _post(res)
        if res.name != (nm or 'mean'):
            ctx.violation('oracle', '%s: result is named %r' % (what, res.name), case)
            return
        out = to_rows(_np(res.data))
    except Exception as e:
        ctx.violation('oracle', '%s raised %s: %s' % (what, type(e).__name__, str(e)[:200]), case)
        return
    D = exact_grid(rows)
    E = [fr(e) for e in excludes]
    mode = mode or ('f64' if passes <= 1 else 'f64tol')
    # the clause of the property, stated directly: a cell whose value is in `excludes` (compared exactly, as rationals; NaN matches
    # NaN) is passed through UNTOUCHED — bit for bit, after any number of passes
    for y, row in enumerate(D):
        for x, c in enumerate(row):
            if any((c is None and e is None) or (c is not None and e is not None and c == e) for e in E):
                g = out[y][x]
                if not (isnan(g) if c is None else (not isnan(g) and Fraction(g) == c)):
                    ctx.violation('oracle', '%s: cell (%d,%d) holds the excluded value %r but came out as %r (excluded values must be '
                                  'passed through untouched)' % (what, y, x, rows[y][x], g),
                                  dict(case, cell=[y, x], got=g, expected=rows[y][x]))
                    return
    check_grid(ctx, out, oracle_mean(D, passes, E), mode, case, what)
    if passes <= 3:
        # the exact model keeps unreduced fractions (denominators grow as d^9 per pass): more passes go to the oracle here and
        # to the float instance (run_float_stream), which is bit-exact for any number of passes
        pend.append(('mean %d %d %s %s' % (passes, len(E), ' '.join(tok(e) for e in E), grid_line(D)), [(out, mode)], case, what))


def run_conv(ctx, pend, a, dtype, karr, chunks=None, koracle=None, entry='convolution_2d'):
    focal, conv, funcs = _impl()
    rows = to_rows(a)
    koracle = np.array(karr, copy=True) if koracle is None else koracle
    K = kfr(koracle)
    case = dict(fn='convolution_2d', data=rows, dtype=dtype, kernel=np.asarray(koracle).tolist(), kdtype=str(karr.dtype), entry=entry)
    if chunks is not None:
        case['dask_chunks'] = chunks_json(chunks)
        ctx.count('convolution_2d/dask')
    ctx.count('dtype/' + dtype)
    ctx.case(case)
    ctx.count('convolution_2d/kernel=%dx%d' % karr.shape)
    what = '%s(kernel %dx%d)' % (entry, karr.shape[0], karr.shape[1])
    try:
        nm = [None, 'smooth'][len(rows) % 2]
        agg = _mk(a, chunks)
        if entry == 'convolve_2d':                       # the array-level function behind convolution_2d / hotspots
            res = xr.DataArray(conv.convolve_2d(agg.data, karr), dims=agg.dims, name=nm or 'convolution_2d')
        else:
            res = conv.convolution_2d(agg, karr) if nm is None else conv.convolution_2d(agg, karr, name=nm)
            _post(res)
        if res.name != (nm or 'convolution_2d'):
            ctx.violation('oracle', '%s: result is named %r' % (what, res.name), case)
            return
        out = to_rows(_np(res.data))
    except Exception as e:
        ctx.violation('oracle', '%s raised %s: %s' % (what, type(e).__name__, str(e)[:200]), case)
        return
    kernel_untouched(ctx, karr, koracle, what, case)
    D = exact_grid(rows)
    check_grid(ctx, out, oracle_conv(D, K), 'f32', case, what)
    pend.append(('conv %s %s' % (grid_line(D), grid_line(K)), [(out, 'f32')], case, what))


BIG = Fraction(1 << 70)      # stands for +-inf in a z-score (only compared with the thresholds)


def zfr(v):
    if isnan(v):
        return None
    if math.isinf(v):
        return BIG if v > 0 else -BIG
    return Fraction(v)


def run_hot(ctx, pend, z):
    """_calc_hotspots_numpy on a z-score array (exact: only comparisons with double literals)"""
    focal, conv, funcs = _impl()
    rows = to_rows(z)
    case = dict(fn='_calc_hotspots_numpy', z=rows, dtype=str(z.dtype))
    ctx.case(case)
    ctx.count('calc_hotspots/%s' % z.dtype)
    what = '_calc_hotspots_numpy'
    try:
        out = [[int(v) for v in row] for row in focal._calc_hotspots_numpy(z).tolist()]
    except Exception as e:
        ctx.violation('oracle', '%s raised %s: %s' % (what, type(e).__name__, str(e)[:200]), case)
        return
    Z = [[zfr(v) for v in row] for row in rows]
    for y, row in enumerate(Z):
        for x, v in enumerate(row):
            exp = 0
            if v is not None:
                for t, c in THRESHOLDS_TEXT:
                    if abs(v) > Fraction(float(t)):
                        exp = c * ((v > 0) - (v < 0))
                        break
            if out[y][x] != exp:
                ctx.violation('oracle', '%s: z=%r classified %d, the threshold ladder 1.65/1.96/2.58 gives %d' % (
                    what, rows[y][x], out[y][x], exp), dict(case, cell=[y, x], got=out[y][x], expected=exp))
                return
    pend.append(('hot ' + grid_line(Z), [(out, 'int')], case, what))


def run_hotspots(ctx, pend, a, dtype, karr, chunks=None, koracle=None):
    focal, conv, funcs = _impl()
    rows = to_rows(a)
    koracle = np.array(karr, copy=True) if koracle is None else koracle
    case = dict(fn='hotspots', data=rows, dtype=dtype, kernel=np.asarray(koracle).tolist(), kdtype=str(karr.dtype))
    if chunks is not None:
        case['dask_chunks'] = chunks_json(chunks)
        ctx.count('hotspots/dask')
    what = 'hotspots(kernel %dx%d)' % karr.shape
    D, K = exact_grid(rows), kfr(koracle)
    vals = [v for r in D for v in r if v is not None]
    const = len(set(vals)) <= 1
    ctx.case(case, nontrivial=not const)
    ctx.count('hotspots/kernel=%dx%d%s' % (karr.shape[0], karr.shape[1], '/constant' if const else ''))
    ctx.count('dtype/' + dtype)

    def call(arr):
        return [[int(v) for v in row] for row in _np(_post(focal.hotspots(_mk(arr, chunks), karr)).data).tolist()]
    if not vals or (const and chunks is not None):
        # all-NaN raster (no mean, no deviation: every comparison with NaN is false) and, on Dask, a constant raster
        # (no early ZeroDivisionError there: 0/0 = NaN): the only admissible answer is "no significance" everywhere
        try:
            with np.errstate(all='ignore'):
                out = call(a)
        except Exception as e:
            ctx.violation('oracle', '%s raised %s: %s' % (what, type(e).__name__, str(e)[:200]), case)
            return
        if any(v != 0 for r in out for v in r):
            ctx.violation('oracle', '%s: a raster without any deviation from its mean got significant cells %r' % (what, out), case)
        return
    try:
        out = call(a)
    except ZeroDivisionError:
        out = 'ZERODIV'
    except Exception as e:
        ctx.violation('oracle', '%s raised %s: %s' % (what, type(e).__name__, str(e)[:200]), case)
        return
    kernel_untouched(ctx, karr, koracle, what, case)
    if const or out == 'ZERODIV':
        if not (const and out == 'ZERODIV'):
            ctx.violation('oracle', '%s: ZeroDivisionError expected exactly for a constant raster; got %r' % (what, out), case)
            return
        pend.append(('hotspots %s %s' % (grid_line(D), grid_line(K)), [('ZERODIV', 'raw')], case, what))
        return
    exp = oracle_hotspots(D, K, slack=1.0 if chunks is None else 3.0)
    modes = [['skip' if near else 'int' for _, near in row] for row in exp]
    ctx.count('hotspots/cells-checked', sum(m == 'int' for r in modes for m in r))
    ctx.count('hotspots/cells-near-threshold-skipped', sum(m == 'skip' for r in modes for m in r))
    ctx.count('hotspots/cells-nonzero', sum(v != 0 for r in out for v in r))
    for y, row in enumerate(out):
        for x, v in enumerate(row):
            if v not in (0, 90, 95, 99, -90, -95, -99):
                ctx.violation('oracle', '%s: value %d outside {0, +-90, +-95, +-99}' % (what, v), dict(case, cell=[y, x], got=v))
                return
            if modes[y][x] == 'int' and v != exp[y][x][0]:
                ctx.violation('oracle', '%s: cell (%d,%d) is %d, z-score ladder gives %d' % (what, y, x, v, exp[y][x][0]),
                              dict(case, cell=[y, x], got=v, expected=exp[y][x][0]))
                return
    # negating the raster negates the result (exactly: IEEE negation is exact)
    try:
        neg = call(-a if not is_int_dtype(dtype) else -(a.astype('int64')))
    except Exception as e:
        ctx.violation('oracle', '%s on the negated raster raised %s' % (what, type(e).__name__), case)
        return
    if neg != [[-v for v in row] for row in out]:
        ctx.violation('oracle', '%s: hotspots(-X) != -hotspots(X)' % what, dict(case, got=neg, expected_negation_of=out))
        return
    pend.append(('hotspots %s %s' % (grid_line(D), grid_line(K)), [(out, modes)], case, what))


def run_ck(ctx, pend, r, c, nd=True):
    focal, conv, funcs = _impl()
    case = dict(fn='custom_kernel', rows=r, cols=c, ndarray=nd)
    ctx.case(case)
    ctx.count('custom_kernel/%s' % ('ndarray' if nd else 'not-ndarray'))
    k = np.ones((r, c)) if nd else [[1.0] * c for _ in range(r)]
    try:
        res = conv.custom_kernel(k)
        got = 'ok' if res is k else 'changed'
    except ValueError:
        got = 'reject'
    except Exception as e:
        got = 'raised ' + type(e).__name__
    exp = 'ok' if (nd and r % 2 == 1 and c % 2 == 1) else 'reject'
    if got != exp:
        ctx.violation('oracle', 'custom_kernel(%s of shape %dx%d) -> %s, expected %s (odd shapes only)' % (
            'ndarray' if nd else 'list', r, c, got, exp), case)
    pend.append(('ck %d %d %d' % (1 if nd else 0, r, c), [(got, 'raw')], case, 'custom_kernel'))
    if nd and exp == 'reject':
        # the public entry points must refuse the kernel as well
        a = np.arange(12, dtype='float64').reshape(3, 4)
        for nm, call in (('apply', lambda: focal.apply(xr.DataArray(a), k)), ('focal_stats', lambda: focal.focal_stats(xr.DataArray(a), k))):
            try:
                call()
                ctx.violation('oracle', 'focal.%s accepted a kernel of even shape %dx%d' % (nm, r, c), dict(case, entry=nm))
            except ValueError:
                pass
            except Exception as e:
                ctx.violation('oracle', 'focal.%s with an even kernel raised %s instead of ValueError' % (nm, type(e).__name__), dict(case, entry=nm))


def compare_model(ctx, pend):
    if ctx.model is None or not pend:
        return
    outs = ctx.model.run([p[0] for p in pend])
    for (line, layers, case, what), mo in zip(pend, outs):
        ctx.traces += 1
        if mo.startswith('ERR'):
            ctx.violation('correspondence', '%s: model returned %s' % (what, mo[:100]), case)
            continue
        if layers[0][1] == 'raw':
            if mo != layers[0][0]:
                ctx.violation('correspondence', '%s: implementation %r vs model %r' % (what, layers[0][0], mo), case)
            continue
        if mo in ('REJECT', 'ZERODIV'):
            ctx.violation('correspondence', '%s: model returned %s, the implementation a result' % (what, mo), case)
            continue
        cells = parse_cells(mo)
        flat = []
        for out, mode in layers:
            for y, row in enumerate(out):
                for x, v in enumerate(row):
                    flat.append((v, mode if isinstance(mode, str) else mode[y][x]))
        if len(cells) != len(flat):
            ctx.violation('correspondence', '%s: model returned %d cells for %d' % (what, len(cells), len(flat)), case)
            continue
        for i, ((g, m), e) in enumerate(zip(flat, cells)):
            if m == 'skip':
                continue
            ok = (e is not None and int(e) == g) if m == 'int' else same(g, e, m)
            if not ok:
                ctx.violation('correspondence', '%s: implementation %r vs model %s at flat index %d' % (
                    what, g, 'nan' if e is None else str(e), i), dict(case, flat_index=i, impl=g, model=None if e is None else float(e)))
                break


def gen_hot_raster(rng, dtype=None, rows=None, cols=None):
    """mostly flat raster with a few strong positive / negative clusters (so that |z| crosses the thresholds)"""
    rows, cols = rows or rng.randint(3, 8), cols or rng.randint(3, 8)
    base = rng.choice([0, 0, 10, -5])
    a = np.full((rows, cols), float(base))
    for _ in range(rng.randint(1, 4)):
        y, x = rng.randrange(rows), rng.randrange(cols)
        amp = float(rng.choice([-1000, -900, -300, 100, 300, 900, 1000]))
        for dy in range(rng.randint(1, 2)):
            for dx in range(rng.randint(1, 3)):
                if y + dy < rows and x + dx < cols:
                    a[y + dy, x + dx] = amp
    for _ in range(rng.randint(0, 6)):
        a[rng.randrange(rows), rng.randrange(cols)] += rng.randint(-50, 50)
    dtype = dtype or rng.choice(['float64', 'float32', 'int32', 'int64'])
    if dtype.startswith('float') and rng.random() < 0.4:
        for _ in range(rng.randint(1, 3)):
            a[rng.randrange(rows), rng.randrange(cols)] = NAN
    if dtype in ('int8', 'uint8'):
        a = np.clip(np.round(a / 10.0), -100, 100)
    if dtype.startswith('uint'):
        a = np.abs(a)
    return a.astype(dtype), dtype


def z_arrays():
    """z-scores at, just below and just above every constant of the ladder (float64 and float32), both signs"""
    vals = [0.0, -0.0, NAN, float('inf'), float('-inf'), 1e-300, -1e-300, 1.0, -1.0, 5.0, -5.0, 100.0]
    for t in (1.29, 1.65, 1.96, 2.33, 2.58):
        for v in (t, np.nextafter(t, 10.0), np.nextafter(t, 0.0), float(np.float32(t)),
                  float(np.nextafter(np.float32(t), np.float32(10))), float(np.nextafter(np.float32(t), np.float32(0))),
                  t + 0.01, t - 0.01):
            vals += [float(v), -float(v)]
    n = len(vals)
    cols = 8
    while len(vals) % cols:
        vals.append(0.5)
    z64 = np.array(vals, dtype='float64').reshape(-1, cols)
    return [z64, z64.astype('float32')]


def small_kernel01(rng, shape=None):
    k = None
    while k is None or not np.any(k == 1):
        k = np.array(gen_kernel01(rng, shape=shape or rng.choice([(1, 1), (1, 3), (3, 1), (3, 3), (3, 5), (5, 3)]),
                                  style=rng.choice(['rand', 'full', 'sparse', 'corner'])), dtype='float64')
    return k


def weighted_kernel(rng, shape, i):
    if i % 4 == 0:
        return np.array([[rng.randint(-3, 3) for _ in range(shape[1])] for _ in range(shape[0])], dtype='int64')
    return np.array([[rng.randint(-16, 16) / 8.0 for _ in range(shape[1])] for _ in range(shape[0])], dtype='float64')


def gen_excludes(rng, a, passes, style):
    """excludes lists: one or several entries, NaN first / in the middle / last / absent, duplicates"""
    finite = [float(v) for v in np.asarray(a, dtype='float64').ravel().tolist() if not isnan(float(v))]
    if passes >= 2:
        # values that a mean can only reach when the whole window already has that value (see RULE)
        pool = ([float(max(finite)), float(min(finite))] if finite else [7.0]) + [99999.0]
    else:
        pool = finite or [7.0]
    v, w, x = rng.choice(pool), rng.choice(pool), rng.choice(pool)
    return [[NAN], [NAN, v], [v], [v, w], [v, NAN, w], [v, NAN], [v, w, NAN], [NAN, v, w], [w, v, x, NAN], [NAN, NAN], [v, v],
            [x, w, v]][style % 12]


def run_dask_stream(ctx, pend):
    """the same functions on Dask-backed rasters, every chunk layout: single chunk, one block tall x several wide, several
    tall x one wide, 1-cell chunks, uneven chunks, regular blocks — compared with the same oracle and model as NumPy"""
    rng = ctx.rng
    q = ctx.quick()
    shapes = [(1, 3), (3, 1), (1, 5), (5, 1), (3, 5), (5, 3), (3, 3), (1, 7), (5, 7), (7, 3)]
    n = 0
    for rep in range(1 if q else 12):
        for li, layout in enumerate(LAYOUTS):
            for fi in range(7):
                n += 1
                if q and (n + ctx.seed) % 2 and layout in ('cells', 'blocks'):
                    continue                              # the two costliest layouts get half the cases in the quick tier
                rows, cols = (rng.randint(5, 8), rng.randint(6, 9)) if layout != 'cells' else (rng.randint(4, 5), rng.randint(5, 6))
                chunks = gen_chunks(rng, rows, cols, layout)
                ctx.count('dask-layout/' + layout)
                shape = shapes[(n + li) % len(shapes)]
                if fi == 0:
                    a, dtype = gen_raster(rng, rows=rows, cols=cols, kind='distinct', nanp=0.05, dtype='float64')
                    run_apply(ctx, pend, a, dtype, np.array(gen_kernel01(rng, shape), dtype='float64'), ['sum', 'u_idxsum'][n % 2], chunks=chunks)
                elif fi == 1:
                    a, dtype = gen_raster(rng, rows=rows, cols=cols, kind='distinct', nanp=0.05, dtype='float64')
                    run_stats(ctx, pend, a, dtype, np.array(gen_kernel01(rng, shape), dtype='float64'), ['sum', 'max', 'min'], chunks=chunks)
                elif fi in (2, 3):
                    a, dtype = gen_raster(rng, rows=rows, cols=cols, nanp=rng.choice([0.0, 0.0, 0.05]),
                                          dtype=rng.choice(['float64', 'int32', 'float32']))
                    run_conv(ctx, pend, a, dtype, weighted_kernel(rng, shape if fi == 2 else (3, 3), n), chunks=chunks)
                elif fi == 4:
                    a, dtype = gen_hot_raster(rng, dtype=rng.choice(['float64', 'int32']), rows=rows, cols=cols)
                    run_hotspots(ctx, pend, a, dtype, small_kernel01(rng), chunks=chunks)
                else:
                    a, dtype = gen_raster(rng, rows=rows, cols=cols, dtype=rng.choice(['float64', 'int64']))
                    passes = (n + fi) % 4 if not (q and layout == 'cells') else (n + fi) % 2
                    run_mean(ctx, pend, a, dtype, passes, gen_excludes(rng, a, passes, n), chunks=chunks)
    # a Dask-backed constant raster: no deviation anywhere, no ZeroDivisionError either
    run_hotspots(ctx, pend, np.full((4, 6), 7.0), 'float64', np.ones((3, 3)), chunks=(4, 2))


def run_audit_stream(ctx, pend):
    """the corners of the property's quantifier that the random generators hit only occasionally"""
    rng = ctx.rng
    q = ctx.quick()
    # raster shapes 1x1, 1xN, Nx1 and rasters smaller than the kernel, for every function
    for (r, c) in [(1, 1), (1, 6), (6, 1), (2, 2), (1, 2), (2, 1), (2, 7), (3, 3)]:
        for rep in range(1 if q else 5):
            a, dtype = gen_raster(rng, rows=r, cols=c, dtype='float64')
            run_apply(ctx, pend, a, dtype, np.array(gen_kernel01(rng, rng.choice([(1, 1), (3, 3), (5, 7), (7, 3)])), dtype='float64'),
                      rng.choice(['sum', 'mean', 'u_idxsum']))
            a, dtype = gen_raster(rng, rows=r, cols=c, dtype=rng.choice(['float64', 'int64']))
            passes = rng.randint(0, 3)
            run_mean(ctx, pend, a, dtype, passes, gen_excludes(rng, a, passes, rng.randrange(12)))
            a, dtype = gen_raster(rng, rows=r, cols=c, nanp=0.0)
            run_conv(ctx, pend, a, dtype, weighted_kernel(rng, rng.choice([(1, 1), (1, 3), (3, 1), (3, 3), (7, 3)]), r + c))
            if r * c > 1:
                a = np.array([[float(rng.choice([0, 0, 0, 50, -80, 3])) for _ in range(c)] for _ in range(r)])
                a[0, 0] = 1.0
                run_hotspots(ctx, pend, a, 'float64', small_kernel01(rng, rng.choice([(1, 1), (1, 3), (3, 1), (3, 3)])))
    # the default reducer of apply, kernels whose entries are not 0/1 (only entries == 1 belong to the window), kernel dtypes
    for i in range(6 if q else 60):
        a, dtype = gen_raster(rng, dtype='float64')
        k = np.array(gen_kernel01(rng, style='weird'), dtype='float64')
        if i % 3 == 0:
            k = np.array(gen_kernel01(rng, style='rand')).astype(['int8', 'uint8', 'bool', 'float32', 'int64'][(i // 3) % 5])
        run_apply(ctx, pend, a, dtype, k, 'default' if i % 2 else 'sum')
    # every integer width, signed and unsigned: apply (a JIT specialisation each: a rotating subset in the quick tier),
    # convolution with negative / zero / fractional weights on integer rasters, mean, hotspots
    rare = RARE_DTYPES if not q else [RARE_DTYPES[ctx.seed % len(RARE_DTYPES)]]
    for dt in rare:
        a, dtype = gen_raster(rng, dtype=dt)
        run_apply(ctx, pend, a, dtype, np.array(gen_kernel01(rng), dtype='float64'), 'sum')
    alld = INT_DTYPES + ['float32']
    for j, dt in enumerate(alld if not q else [alld[(ctx.seed * 4 + j) % len(alld)] for j in range(4)]):
        for rep in range(1 if q else 4):
            shape = rng.choice([(3, 3), (1, 3), (3, 1), (3, 5)])
            a, dtype = gen_raster(rng, rows=rng.randint(shape[0], 7), cols=rng.randint(shape[1], 7), dtype=dt, nanp=0.0)
            k = np.array([[rng.choice([-1.5, -0.25, 0.0, 0.5, 0.75, 1.0, 2.5, -3.0]) for _ in range(shape[1])] for _ in range(shape[0])])
            run_conv(ctx, pend, a, dtype, k)
            a, dtype = gen_raster(rng, dtype=dt)
            passes = rng.randint(0, 2)
            run_mean(ctx, pend, a, dtype, passes, gen_excludes(rng, a, passes, j + rep))
            a, dtype = gen_hot_raster(rng, dtype=dt)
            run_hotspots(ctx, pend, a, dtype, small_kernel01(rng))
    # passes > 3
    for passes in ([4, 6] if q else [4, 5, 6, 8, 12]):
        a, dtype = gen_raster(rng, rows=rng.randint(3, 6), cols=rng.randint(3, 6), dtype='float64')
        run_mean(ctx, pend, a, dtype, passes, gen_excludes(rng, a, passes, passes))
    # excludes: every order of {NaN, v, w}, several entries, NaN first / last, duplicates
    for style in range(12):
        for passes in ((1,) if q else (0, 1, 2, 3)):
            a, dtype = gen_raster(rng, rows=rng.randint(2, 6), cols=rng.randint(2, 6), dtype='float64', kind='int', nanp=0.2)
            run_mean(ctx, pend, a, dtype, passes, gen_excludes(rng, a, passes, style))
    # stats_funcs: reversed canonical order, every single statistic, a duplicate, every rotation
    a, dtype = gen_raster(rng, rows=4, cols=5, dtype='float64')
    k = np.array(gen_kernel01(rng, (3, 3)), dtype='float64')
    lists = [list(reversed(BUILTIN)), ['sum', 'sum'], ['var', 'mean', 'var']] + [BUILTIN[i:] + BUILTIN[:i] for i in (2, 5)]
    lists += [[s_] for s_ in (BUILTIN if not q else BUILTIN[ctx.seed % 7:][:2])]
    for names in lists:
        run_stats(ctx, pend, a, dtype, k, names)
    # hotspots: |mean| / std from 1e2 to 1e6 (float32 cancellation; the check is limited by the error bound of the float32
    # evaluation, see oracle_hotspots; the float stream covers these rasters bit-for-bit), constant and all-NaN rasters
    for j, off in enumerate([1e2, 1e3, 1e4, 1e5, 1e6] * (1 if q else 6)):
        a, dtype = gen_hot_raster(rng, dtype='int32')
        scale = rng.choice([1, 1, 10])
        a = np.round(a.astype('float64') / (100.0 / scale)) + off * (-1 if j % 2 else 1)
        dtype = 'float64' if j % 3 else 'int64'
        ctx.count('hotspots/offset=%g' % off)
        run_hotspots(ctx, pend, a.astype(dtype), dtype, small_kernel01(rng))
    run_hotspots(ctx, pend, np.full((3, 4), 5, dtype='int32'), 'int32', np.ones((3, 3)))
    run_hotspots(ctx, pend, np.full((3, 4), NAN), 'float64', np.ones((3, 3)))
    an = np.full((4, 4), 2.0)
    an[1, 2] = NAN
    run_hotspots(ctx, pend, an, 'float64', np.ones((1, 3)))


def run(ctx):
    rng = ctx.rng
    q = ctx.quick()
    pend = []
    focal, conv, funcs = _impl()
    allf = BUILTIN + USER
    # ---- focal.apply: every odd kernel shape up to 5x7 x every reducer ---------------------------------
    reps = 1 if q else 12
    for rep in range(reps):
        for shape in ODD_SHAPES:
            for i, fname in enumerate(allf):
                # float64 for the full cross product (one JIT specialisation per reducer); other dtypes below
                a, dtype = gen_raster(rng, dtype='float64')
                k = np.array(gen_kernel01(rng, shape), dtype='float64')
                run_apply(ctx, pend, a, dtype, k, fname)
    for i in range(60 if q else 1600):
        fname = ['mean', 'u_idxsum', 'sum', 'u_first'][i % 4]
        a, dtype = gen_raster(rng)
        k = kernel_array(rng, gen_kernel01(rng)) if fname in ('mean', 'u_idxsum') else np.array(gen_kernel01(rng), dtype='float64')
        run_apply(ctx, pend, a, dtype, k, fname)
    # asymmetric one-cell kernels: each output cell is one named neighbour (detects mirrored / transposed offsets)
    for shape in ODD_SHAPES:
        kr, kc = shape
        for _ in range(1 if q else 4):
            i0, j0 = rng.randrange(kr), rng.randrange(kc)
            k = np.zeros(shape)
            k[i0, j0] = 1.0
            a, dtype = gen_raster(rng, rows=rng.randint(2, 6), cols=rng.randint(2, 7), kind='distinct', nanp=0.0, dtype='float64')
            run_apply(ctx, pend, a, dtype, k, 'sum')
    if not q:
        # exhaustive: all 512 0/1 kernels of shape 3x3 (and all of shape 1x3, 3x1, 1x5, 5x1) with the index-weighted reducer
        a, dtype = gen_raster(rng, rows=4, cols=5, kind='distinct', nanp=0.0, dtype='float64')
        for shape in ((3, 3), (1, 3), (3, 1), (1, 5), (5, 1)):
            n = shape[0] * shape[1]
            for bits in range(1 << n):
                k = np.array([(bits >> b) & 1 for b in range(n)], dtype='float64').reshape(shape)
                run_apply(ctx, pend, a, dtype, k, 'u_idxsum')
    run_dask_stream(ctx, pend)
    run_audit_stream(ctx, pend)
    # ---- focal_stats -------------------------------------------------------------------------------------
    for i in range(24 if q else 600):
        a, dtype = gen_raster(rng, dtype='float64' if i % 3 else None)
        k = kernel_array(rng, gen_kernel01(rng)) if dtype == 'float64' else np.array(gen_kernel01(rng), dtype='float64')
        if i % 3 == 0:
            names = None
        else:
            names = rng.sample(BUILTIN, rng.randint(1, 7))
        run_stats(ctx, pend, a, dtype, k, names)
    # ---- focal.mean ---------------------------------------------------------------------------------------
    for i in range(60 if q else 1600):
        a, dtype = gen_raster(rng, dtype=rng.choice(['float64', 'float64', 'int64', 'float32']))
        passes = i % 4
        finite = [float(v) for v in a.ravel().tolist() if not isnan(float(v))]
        style = i % 5
        if passes >= 2:
            # values that a mean can only reach when the whole window already has that value (see RULE)
            far = [float(max(finite)), float(min(finite))] if finite else [7.0]
            pool = far + [99999.0]
        else:
            pool = finite or [7.0]
        if style == 0:
            ex = [NAN]
        elif style == 1:
            ex = [NAN, rng.choice(pool)]
        elif style == 2:
            ex = [rng.choice(pool)]
        elif style == 3:
            ex = [rng.choice(pool), rng.choice(pool)]
        else:
            ex = [rng.choice(pool), NAN, rng.choice(pool)]
        run_mean(ctx, pend, a, dtype, passes, ex)
    # ---- convolution_2d: weighted kernels -------------------------------------------------------------------
    for i in range(60 if q else 1600):
        shape = ODD_SHAPES[i % len(ODD_SHAPES)]
        rows = rng.randint(max(1, shape[0] - 1), 8)
        cols = rng.randint(max(1, shape[1] - 1), 8)
        a, dtype = gen_raster(rng, rows=rows, cols=cols, nanp=rng.choice([0.0, 0.0, 0.05, 0.2]))
        if i % 4 == 0:
            k = np.array([[rng.randint(-3, 3) for _ in range(shape[1])] for _ in range(shape[0])], dtype='int64')
        else:
            k = np.array([[rng.randint(-16, 16) / 8.0 for _ in range(shape[1])] for _ in range(shape[0])], dtype='float64')
        run_conv(ctx, pend, a, dtype, k)
    # ---- hotspots -----------------------------------------------------------------------------------------------
    for z in z_arrays():
        run_hot(ctx, pend, z)
    for i in range(4 if q else 40):
        z = np.array([[rng.choice([1.29, 1.65, 1.96, 2.33, 2.58]) * rng.choice([1, -1]) + rng.choice([0, 0, 2 ** -20, -2 ** -20, 2 ** -45, 0.3, -0.3])
                       for _ in range(6)] for _ in range(5)], dtype='float64')
        run_hot(ctx, pend, z if i % 2 else z.astype('float32'))
    for i in range(40 if q else 1000):
        a, dtype = gen_hot_raster(rng)
        k = None
        while k is None or not np.any(k == 1):
            k = np.array(gen_kernel01(rng, shape=rng.choice([(1, 1), (1, 3), (3, 1), (3, 3), (3, 5), (5, 3)]),
                                      style=rng.choice(['rand', 'full', 'sparse', 'corner'])), dtype='float64')
        run_hotspots(ctx, pend, a, dtype, k)
    for i in range(3):
        a = np.full((3, 4), float(i * 7))
        run_hotspots(ctx, pend, a, 'float64', np.ones((3, 3)))
    # ---- custom_kernel -----------------------------------------------------------------------------------------
    for r in range(1, 8 if q else 12):
        for c in range(1, 8 if q else 12):
            run_ck(ctx, pend, r, c, True)
    run_ck(ctx, pend, 3, 3, False)
    run_ck(ctx, pend, 2, 3, False)
    # ---- the defaults recorded in the generated facts are the implementation's defaults ------------------------------
    import inspect
    dflt = inspect.signature(focal.focal_stats).parameters['stats_funcs'].default
    dfun = inspect.signature(focal.apply).parameters['func'].default
    prim = {v: k for k, v in CALC_BODIES.items()}
    name = {'PNanmean': 'nanmean', 'PNansum': 'nansum', 'PNanmin': 'nanmin', 'PNanmax': 'nanmax', 'PNanstd': 'nanstd',
            'PNanvar': 'nanvar', 'PRangeOfMinMax': 'range_of_min_max'}
    dname = [n for n, f in funcs.items() if f is dfun]
    want = '%s | %s' % (' '.join(dflt), {'mean': 'nanmean', 'sum': 'nansum', 'min': 'nanmin', 'max': 'nanmax', 'std': 'nanstd',
                                         'var': 'nanvar', 'range': 'range_of_min_max'}.get(dname[0] if dname else '', '?'))
    pend.append(('defaults', [(want, 'raw')], dict(fn='defaults'), 'defaults of focal_stats / apply'))
    ctx.exhaustive = False
    compare_model(ctx, pend)
    run_float_stream(ctx)
    run_theme_stream(ctx)
    run_kernel_stream(ctx)
    run_excludes_stream(ctx)


# ---------------------------------------------------------------------------------------------
# the FLOAT stream: random non-integer data, compared BIT-FOR-BIT with the float instance of the model
# ---------------------------------------------------------------------------------------------
import struct  # noqa: E402


def ftok(v):
    v = float(v)
    if math.isnan(v):
        return 'nan'
    if math.isinf(v):
        return 'inf' if v > 0 else '-inf'
    return v.hex()


def fgrid_line(a):
    a = np.asarray(a, dtype='float64')
    return '%d %d %s' % (a.shape[0], a.shape[1], ' '.join(ftok(v) for v in a.ravel().tolist()))


def fparse(t):
    return NAN if t in ('nan', '-nan') else float.fromhex(t) if 'x' in t else float(t)


def same_bits(a, b):
    """two binary64 values (float32 results are widened exactly): equal bit patterns, any NaN equals any NaN"""
    a, b = float(a), float(b)
    if math.isnan(a) or math.isnan(b):
        return math.isnan(a) and math.isnan(b)
    return struct.pack('<d', a) == struct.pack('<d', b)


def rnd_float(rng, kind, nanp=0.12, infp=0.02):
    u = rng.random()
    if u < nanp:
        return NAN
    if u > 1.0 - infp:
        return float('inf') if rng.random() < 0.5 else float('-inf')
    if kind == 'wide':
        return rng.gauss(0, 1) * 10 ** rng.uniform(-20, 20)
    if kind == 'big':                       # overflows float32 / products overflow
        return rng.gauss(0, 1) * 10 ** rng.uniform(25, 38.4)
    if kind == 'tiny':                      # float32 subnormals / underflow
        return rng.gauss(0, 1) * 10 ** rng.uniform(-46, -30)
    if kind == 'near':                      # nearly equal values: cancellation in var / z-scores
        return 1000.0 + rng.gauss(0, 1e-3)
    if isinstance(kind, tuple):             # ('cancel', e): +-2^e among ordinary values — the summation ORDER shows in the result
        if rng.random() < 0.4:
            return rng.choice([-1.0, 1.0]) * 2.0 ** kind[1]
        return rng.gauss(0, 100)
    return rng.gauss(0, 100)


FKINDS = ['norm', 'norm', 'wide', 'big', 'tiny', 'near', 'cancel', 'cancel']


def gen_fraster(rng, rows=None, cols=None, kind=None, nanp=0.12, infp=0.02, dtype=None):
    rows = rows or rng.randint(1, 8)
    cols = cols or rng.randint(1, 8)
    kind = kind or rng.choice(FKINDS)
    gk = ('cancel', rng.choice([30, 60, 90])) if kind == 'cancel' else kind
    if kind == 'cancel':
        nanp, infp = min(nanp, 0.05), 0.0
    a = np.array([[rnd_float(rng, gk, nanp, infp) for _ in range(cols)] for _ in range(rows)], dtype='float64')
    dtype = dtype or 'float64'
    with np.errstate(all='ignore'):
        a = a.astype(dtype)
    return a, dtype, kind


def fcompare(ctx, fpend):
    """fpend: (line, impl flat floats or raw string or ints, mode, case, what)"""
    if ctx.model is None or not fpend:
        return
    outs = ctx.model.run([p[0] for p in fpend])
    for (line, got, mode, case, what), mo in zip(fpend, outs):
        ctx.traces += 1
        if mo.startswith('ERR'):
            ctx.violation('correspondence', '%s [float instance]: model returned %s' % (what, mo[:100]), case)
            continue
        if mode == 'raw':
            if mo != got:
                ctx.violation('correspondence', '%s [float instance]: implementation %r vs model %r' % (what, got, mo), case)
            continue
        if mo in ('REJECT', 'ZERODIV'):
            ctx.violation('correspondence', '%s [float instance]: model returned %s, the implementation a result' % (what, mo), case)
            continue
        toks = mo.split()
        if len(toks) != len(got):
            ctx.violation('correspondence', '%s [float instance]: model returned %d cells for %d' % (what, len(toks), len(got)), case)
            continue
        for i, (g, t) in enumerate(zip(got, toks)):
            ok = (int(t, 0) == int(g)) if mode == 'int' else same_bits(g, fparse(t))
            if not ok:
                ctx.violation('correspondence', '%s [float instance, bit-for-bit]: implementation %s vs model %s at flat index %d' % (
                    what, g if mode == 'int' else ftok(g), t, i), dict(case, flat_index=i, impl=g if mode == 'int' else ftok(g), model=t))
                break


def flat64(a):
    return [float(v) for v in np.asarray(a, dtype='float64').ravel().tolist()]


def frun_apply(ctx, fpend, a, dtype, kind, karr, names):
    """names: one built-in statistic (focal.apply) or a list (focal_stats)"""
    focal, conv, funcs = _impl()
    single = isinstance(names, str)
    case = dict(fn='f_apply' if single else 'f_stats', stats=names, data=to_rows(a), dtype=dtype, kind=kind, kernel=np.asarray(karr).tolist())
    ctx.case(case)
    ctx.count('float/%s/%s' % ('apply' if single else 'focal_stats', kind))
    what = 'focal.%s(%s) on %s floats' % ('apply' if single else 'focal_stats', names, kind)
    try:
        with np.errstate(all='ignore'):
            agg = xr.DataArray(a, dims=['y', 'x'])
            out = focal.apply(agg, karr, funcs[names]).data if single else focal.focal_stats(agg, karr, stats_funcs=list(names)).data
    except Exception as e:
        ctx.violation('oracle', '%s raised %s: %s' % (what, type(e).__name__, str(e)[:200]), case)
        return
    if single:
        fpend.append(('fapply %s %s %s' % (names, fgrid_line(a), fgrid_line(karr)), flat64(out), 'bits', case, what))
    else:
        fpend.append(('fstats %d %s %s %s' % (len(names), ' '.join(names), fgrid_line(a), fgrid_line(karr)), flat64(out), 'bits', case, what))


def frun_mean(ctx, fpend, a, kind, passes, excludes):
    focal, conv, funcs = _impl()
    case = dict(fn='f_mean', passes=passes, excludes=list(excludes), data=to_rows(a), kind=kind)
    ctx.case(case)
    ctx.count('float/mean/passes=%d/%s' % (passes, kind))
    what = 'focal.mean(passes=%d, excludes=%r) on %s floats' % (passes, excludes, kind)
    try:
        with np.errstate(all='ignore'):
            out = focal.mean(xr.DataArray(a, dims=['y', 'x']), passes=passes, excludes=list(excludes)).data
    except Exception as e:
        ctx.violation('oracle', '%s raised %s: %s' % (what, type(e).__name__, str(e)[:200]), case)
        return
    fpend.append(('fmean %d %d %s %s' % (passes, len(excludes), ' '.join(ftok(e) for e in excludes), fgrid_line(a)),
                  flat64(out), 'bits', case, what))


def frun_conv(ctx, fpend, a, dtype, kind, karr):
    focal, conv, funcs = _impl()
    case = dict(fn='f_conv', data=to_rows(a), dtype=dtype, kind=kind, kernel=np.asarray(karr).tolist())
    ctx.case(case)
    ctx.count('float/convolution_2d/%s' % kind)
    what = 'convolution_2d(kernel %dx%d) on %s floats' % (karr.shape[0], karr.shape[1], kind)
    try:
        with np.errstate(all='ignore'):
            out = conv.convolution_2d(xr.DataArray(a, dims=['y', 'x']), karr).data
    except Exception as e:
        ctx.violation('oracle', '%s raised %s: %s' % (what, type(e).__name__, str(e)[:200]), case)
        return
    fpend.append(('fconv %s %s' % (fgrid_line(a), fgrid_line(karr)), flat64(out), 'bits', case, what))


def frun_hot(ctx, fpend, z32):
    focal, conv, funcs = _impl()
    case = dict(fn='f_hot', z=to_rows(z32))
    ctx.case(case)
    ctx.count('float/calc_hotspots')
    out = [int(v) for v in focal._calc_hotspots_numpy(z32).ravel().tolist()]
    fpend.append(('fhot ' + fgrid_line(z32), out, 'int', case, '_calc_hotspots_numpy on float32 z-scores'))


def frun_hotspots(ctx, fpend, a, dtype, kind, karr):
    focal, conv, funcs = _impl()
    case = dict(fn='f_hotspots', data=to_rows(a), dtype=dtype, kind=kind, kernel=np.asarray(karr).tolist())
    ctx.case(case)
    ctx.count('float/hotspots/%s' % kind)
    what = 'hotspots(kernel %dx%d) on %s floats' % (karr.shape[0], karr.shape[1], kind)
    with np.errstate(all='ignore'):
        a32 = a.astype('float32')
        gm, gs = np.nanmean(a32), np.nanstd(a32)
    # NumPy's own global reductions against the model of its pairwise float32 summation
    fpend.append(('fglobal ' + fgrid_line(a), [float(gm), float(gs)], 'bits', dict(case, fn='f_global'),
                  'np.nanmean / np.nanstd of the float32 raster (pairwise summation model)'))
    try:
        with np.errstate(all='ignore'):
            out = [int(v) for v in focal.hotspots(xr.DataArray(a, dims=['y', 'x']), karr).data.ravel().tolist()]
        ctx.count('float/hotspots/cells-nonzero', sum(v != 0 for v in out))
        for v in out:
            if v not in (0, 90, 95, 99, -90, -95, -99):
                ctx.violation('oracle', '%s: value %d outside {0, +-90, +-95, +-99}' % (what, v), case)
                return
        fpend.append(('fhotspots %s %s' % (fgrid_line(a), fgrid_line(karr)), out, 'int', case, what))
    except ZeroDivisionError:
        fpend.append(('fhotspots %s %s' % (fgrid_line(a), fgrid_line(karr)), 'ZERODIV', 'raw', case, what))
    except Exception as e:
        ctx.violation('oracle', '%s raised %s: %s' % (what, type(e).__name__, str(e)[:200]), case)


def run_float_stream(ctx):
    rng = ctx.rng
    q = ctx.quick()
    fpend = []
    # focal.apply: every built-in statistic x every odd kernel shape
    for rep in range(1 if q else 6):
        for si, shape in enumerate(ODD_SHAPES):
            for fi, fname in enumerate(BUILTIN):
                if q and (si + fi) % 2:
                    continue
                a, dtype, kind = gen_fraster(rng)
                k = np.array(gen_kernel01(rng, shape, style=rng.choice(['rand', 'full', 'sparse', 'corner'])), dtype='float64')
                frun_apply(ctx, fpend, a, dtype, kind, k, fname)
    for i in range(8 if q else 100):
        a, dtype, kind = gen_fraster(rng, dtype='float32' if i % 2 else 'float64')
        k = np.array(gen_kernel01(rng), dtype='float64')
        frun_apply(ctx, fpend, a, dtype, kind, k, ['mean', 'sum'][i % 2] if dtype == 'float32' else rng.sample(BUILTIN, rng.randint(2, 7)))
    for i in range(40 if q else 500):
        a, dtype, kind = gen_fraster(rng)
        passes = i % 4 if i % 10 else [4, 6, 9, 12][(i // 10) % 4]
        vals = [float(v) for v in a.ravel().tolist()]
        ex = [[NAN], [NAN, rng.choice(vals)], [rng.choice(vals)], [rng.choice(vals), rng.choice(vals)],
              [rng.choice(vals), NAN], [rng.choice(vals), rng.choice(vals), NAN]][(i // 4) % 6]
        frun_mean(ctx, fpend, a, kind, passes, ex)
    for i in range(40 if q else 500):
        shape = ODD_SHAPES[i % len(ODD_SHAPES)]
        a, dtype, kind = gen_fraster(rng, rows=rng.randint(max(1, shape[0] - 1), 8), cols=rng.randint(max(1, shape[1] - 1), 8),
                                     nanp=rng.choice([0.0, 0.03, 0.1]), infp=rng.choice([0.0, 0.02]),
                                     dtype='float32' if i % 5 == 4 else 'float64')
        k = np.array([[rng.gauss(0, 1) * 10 ** rng.uniform(-3, 3) for _ in range(shape[1])] for _ in range(shape[0])], dtype='float64')
        if i % 3 == 0:
            # exact weights on a raster with +-2^e cells: large terms cancel, the accumulation order decides the float32 result
            a, dtype, kind = gen_fraster(rng, rows=rng.randint(shape[0], 8), cols=rng.randint(shape[1], 8), kind='cancel', nanp=0.0)
            k = np.array([[rng.choice([1.0, 1.0, -1.0, 0.5, 2.0, 0.0]) for _ in range(shape[1])] for _ in range(shape[0])], dtype='float64')
        frun_conv(ctx, fpend, a, dtype, kind, k)
    for z in z_arrays()[1:]:
        frun_hot(ctx, fpend, z)
    for i in range(3 if q else 30):
        with np.errstate(all='ignore'):
            z = np.array([[rnd_float(rng, rng.choice(['norm', 'wide', 'tiny']), 0.1, 0.05) if rng.random() < 0.4 else rng.gauss(0, 2)
                           for _ in range(8)] for _ in range(6)], dtype='float64').astype('float32')
        frun_hot(ctx, fpend, z)
    for i in range(40 if q else 500):
        style = i % 4
        if style == 0:
            a, dtype = gen_hot_raster(rng, dtype='float64')
            a = a + np.array([[rng.gauss(0, 0.37) for _ in range(a.shape[1])] for _ in range(a.shape[0])])
            kind = 'clusters'
        elif style == 1:
            rows, cols = rng.randint(2, 8), rng.randint(2, 8)
            a = np.array([[rng.gauss(5, 1) for _ in range(cols)] for _ in range(rows)])
            for _ in range(rng.randint(1, 3)):
                a[rng.randrange(rows), rng.randrange(cols)] = rng.choice([-1, 1]) * rng.uniform(3, 40)
            kind = 'outliers'
        else:
            a, dtype, kind = gen_fraster(rng, rows=rng.randint(2, 8), cols=rng.randint(2, 8), kind=rng.choice(['norm', 'wide', 'near']),
                                         nanp=rng.choice([0.0, 0.05, 0.2]), infp=0.0 if style == 2 else 0.03)
        if rng.random() < 0.3:
            a[rng.randrange(a.shape[0]), rng.randrange(a.shape[1])] = NAN
        k = None
        while k is None or not np.any(k == 1):
            k = np.array(gen_kernel01(rng, shape=rng.choice([(1, 1), (1, 3), (3, 1), (3, 3), (3, 5), (5, 3)]),
                                      style=rng.choice(['rand', 'full', 'sparse', 'corner'])), dtype='float64')
        frun_hotspots(ctx, fpend, a, 'float64', kind, k)
    fcompare(ctx, fpend)


# ---------------------------------------------------------------------------------------------
# THEME stream (appended last: earlier rng draws do not shift): memory layouts, parameter objects and dtype limits,
# Dask compute patterns, call sequences on derived rasters, coordinates / attrs, degenerate inputs
# ---------------------------------------------------------------------------------------------
import copy as _copy  # noqa: E402

LAYOUT_NAMES = ['F', 'T', 'strided', 'rev', 'ro']


def relayout(a, name):
    """the same logical array in another memory layout"""
    a = np.asarray(a)
    if name == 'F':
        return np.asfortranarray(a)
    if name == 'T':                                   # a transposed view of a C-contiguous buffer
        return np.ascontiguousarray(a.T).T
    if name == 'strided':                             # big[::2, ::3]
        big = np.zeros((a.shape[0] * 2, a.shape[1] * 3), dtype=a.dtype)
        big[::2, ::3] = a
        return big[::2, ::3]
    if name == 'rev':                                 # buf[::-1, ::-1]
        return np.ascontiguousarray(a[::-1, ::-1])[::-1, ::-1]
    if name == 'ro':
        b = a.copy()
        b.setflags(write=False)
        return b
    return np.ascontiguousarray(a)


THEME_ATTRS = {'res': (0.5, 2.0), 'unit': 'm', 'crs': 'EPSG:3857', 'nested': {'a': [1, 2]}}


class _Watch:
    """builds the DataArray handed to the implementation (coords, attrs, name), remembers the inputs and checks after the
    call that they are untouched and that the result carries the input's dims / coords / attrs"""

    def __init__(self, ctx, dims=('y', 'x'), coord_kind='desc'):
        self.ctx, self.dims, self.coord_kind = ctx, dims, coord_kind
        self.made, self.results = [], []

    def coords(self, r, c):
        k = self.coord_kind
        if k == 'desc':                   # descending y, negative fractional non-zero origin x
            return np.linspace(7.5, 7.5 - 0.5 * (r - 1), r), -3.25 + 2.0 * np.arange(c)
        if k == 'large':                  # 1e6 spacing, x spacing != y spacing
            return 4.0e6 + 1.0e6 * np.arange(r), -2.0e6 + 3.0e5 * np.arange(c)
        if k == 'latlon':                 # pole / antimeridian values
            return np.linspace(90.0, 90.0 - 1.5 * (r - 1), r), np.linspace(179.5 - (c - 1), 179.5, c)
        return np.arange(r, dtype='float64'), np.arange(c, dtype='float64')

    def make(self, a, chunks):
        r, c = a.shape
        ys, xs = self.coords(r, c)
        agg = xr.DataArray(_backed(a, chunks), dims=list(self.dims), coords={self.dims[0]: ys, self.dims[1]: xs},
                           attrs=_copy.deepcopy(THEME_ATTRS), name='src')
        self.made.append((agg, a, np.array(a, copy=True), ys.copy(), xs.copy(), a.flags.writeable))
        return agg

    def post(self, res):
        self.results.append(res)

    def __enter__(self):
        _HOOK['make'], _HOOK['post'] = self.make, self.post
        return self

    def __exit__(self, *exc):
        _HOOK['make'] = _HOOK['post'] = None

    def verify(self, what, case):
        v = self.ctx.violation
        for agg, a, snap, ys, xs, wr in self.made:
            if not (np.array_equal(np.asarray(a), snap, equal_nan=(snap.dtype.kind == 'f')) and a.dtype == snap.dtype
                    and a.flags.writeable == wr):
                v('oracle', '%s modified its input raster' % what, case)
            if agg.attrs != THEME_ATTRS or agg.name != 'src' or not np.array_equal(agg.coords[self.dims[0]].values, ys) \
                    or not np.array_equal(agg.coords[self.dims[1]].values, xs):
                v('oracle', '%s modified the attrs / coords / name of its input' % what, case)
        for res in self.results:
            d = tuple(res.dims)
            if d[-2:] != tuple(self.dims):
                v('oracle', '%s: result dims %r, input dims %r' % (what, d, self.dims), case)
                continue
            agg = self.made[0][0]
            for dim in self.dims:
                if dim not in res.coords or not np.array_equal(res.coords[dim].values, agg.coords[dim].values):
                    v('oracle', '%s: coordinate %r of the result differs from the input' % (what, dim), case)
            want = dict(THEME_ATTRS, unit='%') if res.dtype == np.int8 else THEME_ATTRS
            if dict(res.attrs) != want:
                v('oracle', '%s: result attrs %r, expected %r' % (what, dict(res.attrs), want), case)
        self.made, self.results = [], []


def run_theme_stream(ctx):
    rng = ctx.rng
    q = ctx.quick()
    pend, fpend = [], []
    focal, conv, funcs = _impl()
    import inspect
    defaults_before = (list(inspect.signature(focal.mean).parameters['excludes'].default),
                       list(inspect.signature(focal.focal_stats).parameters['stats_funcs'].default))
    rot = ctx.seed

    # ---- 1. memory layout of EACH array argument (raster, kernel) separately ------------------------------------------------
    k33 = np.array([[1, 0, 1], [0, 1, 0], [1, 1, 0]], dtype='float64')
    for li, lay in enumerate(LAYOUT_NAMES):
        heavy = (not q) or (li + rot) % 5 < 2          # numba specialises per layout: two apply layouts per quick run, all conv
        for who in ('raster', 'kernel'):
            a, dtype = gen_raster(rng, rows=rng.randint(3, 6), cols=rng.randint(3, 7), dtype='float64')
            kshape = rng.choice([(3, 3), (1, 3), (3, 5), (5, 3)])
            k01 = np.array(gen_kernel01(rng, kshape, style='rand'), dtype='float64')
            kw = weighted_kernel(rng, kshape, 1)
            al = relayout(a, lay) if who == 'raster' else a
            ctx.count('theme/layout/%s/%s' % (who, lay))
            run_conv(ctx, pend, al, dtype, relayout(kw, lay) if who == 'kernel' else kw)
            if heavy:
                run_apply(ctx, pend, al, dtype, relayout(k01, lay) if who == 'kernel' else k01, ['sum', 'u_idxsum'][li % 2])
            if who == 'raster':
                run_mean(ctx, pend, al, dtype, li % 3, [NAN, float(rng.choice([v for v in a.ravel().tolist() if not isnan(v)] or [1.0]))])
                ah, hd = gen_hot_raster(rng, dtype='float64')
                run_hotspots(ctx, pend, relayout(ah, lay), hd, small_kernel01(rng))
            elif heavy:
                ah, hd = gen_hot_raster(rng, dtype='float64')
                run_hotspots(ctx, pend, ah, hd, relayout(small_kernel01(rng, (3, 3)), lay))
                run_stats(ctx, pend, a, dtype, relayout(k01, lay), ['max', 'sum'])

    # ---- 2. parameter objects and precision ------------------------------------------------------------------------------
    a, dtype = gen_raster(rng, rows=4, cols=5, kind='int', dtype='float64', nanp=0.15)
    vals = sorted(set(v for v in a.ravel().tolist() if not isnan(v)))
    v1, v2 = vals[0], vals[-1]
    for raw, logical in ([[int(v1)], [v1]], [[int(v1), int(v2)], [v1, v2]], [(NAN, v2), [NAN, v2]],
                         [np.array([NAN, v1], dtype='float32'), [NAN, v1]], [np.array([int(v2), int(v1)], dtype='int16'), [v2, v1]],
                         [np.array([v2, NAN, v1], dtype='float64'), [v2, NAN, v1]], [[np.float32(v1), np.float32(v2)], [v1, v2]]):
        ctx.count('theme/excludes-object/%s' % type(raw).__name__)
        run_mean(ctx, pend, a, dtype, 1, logical, raw_excludes=raw)
    run_mean(ctx, pend, a, dtype, 2, [NAN], raw_passes=np.int64(2))
    run_mean(ctx, pend, a.astype('int16'), 'int16', 0, [float(v1)], raw_passes=np.int8(0))
    # integer rasters at the limits of their dtype (small widths: exact stream; wide values: float stream, exact below 2^53)
    for dt in ['int8', 'uint8', 'int16', 'uint16']:
        info = np.iinfo(dt)
        a = np.array([[info.min, info.max, 0, 1], [info.max, info.min, info.max - 1, info.min + 1], [3, info.max, info.min, 7]], dtype=dt)
        ctx.count('theme/dtype-limits/' + dt)
        run_conv(ctx, pend, a, dt, np.array([[0.5, -1.0, 0.25]]))
        run_mean(ctx, pend, a, dt, 1, [float(info.max)])
        run_hotspots(ctx, pend, a, dt, np.ones((1, 3)))
        if (not q) or dt == ['int8', 'uint8', 'int16', 'uint16'][rot % 4]:
            run_apply(ctx, pend, a, dt, np.ones((1, 3)), 'sum')
    for dt, vs in (('int32', [2 ** 24 + 1, -(2 ** 24) - 3, 2 ** 31 - 1, -(2 ** 31), 16777217, 5]),
                   ('int64', [2 ** 24 + 1, 2 ** 31 + 5, -(2 ** 40) - 1, 2 ** 53 - 1, -(2 ** 53) + 1, 3]),
                   ('uint32', [2 ** 32 - 1, 2 ** 31 + 1, 2 ** 24 + 1, 0, 7, 2 ** 25 + 2]),
                   ('uint64', [2 ** 53 - 1, 2 ** 40 + 1, 2 ** 24 + 1, 0, 9, 2 ** 33 + 3])):
        a = np.array([vs, vs[::-1], vs[2:] + vs[:2]], dtype=dt)
        ctx.count('theme/wide-integers/' + dt)
        frun_conv(ctx, fpend, a, dt, 'wide-int', np.array([[0.5, -1.0, 0.25], [1.0, 0.0, -0.5], [2.0, 1.0, 1.0]]))
        frun_mean(ctx, fpend, a, 'wide-int', 2, [float(vs[0])])
        frun_hotspots(ctx, fpend, a, dt, 'wide-int', np.ones((1, 3)))
        if (not q) or dt == ['int32', 'int64', 'uint32', 'uint64'][rot % 4]:
            frun_apply(ctx, fpend, a, dt, 'wide-int', np.ones((3, 3)), 'mean')
    # excludes equal to, and one ulp around, cell values in the cell's OWN dtype (float32 cells: 0.1f is not the double 0.1)
    a32 = np.array([[0.1, 0.2, 0.3, 1e-9], [0.1, 16777217.0, 0.7, 0.2], [2.5, 0.1, 1.0 / 3.0, 0.3]], dtype='float32')
    c = float(a32[0, 0])
    for ex in ([c], [0.1], [float(np.nextafter(np.float32(0.1), np.float32(1)))], [float(np.nextafter(c, 1.0))], [float(np.nextafter(c, 0.0)), NAN],
               [float(a32[1, 1]), 16777217.0, c]):
        ctx.count('theme/excludes-ulp')
        frun_mean(ctx, fpend, a32, 'float32-cells', 1 + len(ex) % 2, ex)
    a64 = a32.astype('float64') + 1e-9
    frun_mean(ctx, fpend, a64, 'offset-1e-9', 1, [float(a64[0, 0]), float(a32[0, 0])])
    frun_conv(ctx, fpend, a64, 'float64', 'offset-1e-9', np.array([[0.1, 0.2, 0.3]]))
    run_conv(ctx, pend, gen_raster(rng, rows=4, cols=5, dtype='int16')[0], 'int16', np.array([[0.5, -0.25, 2.0]], dtype='float32'))

    # ---- 3. Dask: several lazy results from ONE dask.compute; a lazy result computed only after other calls -------------
    import dask
    import dask.array as da
    for rep in range(1 if q else 6):
        a, dtype = gen_raster(rng, rows=6, cols=7, kind='distinct', nanp=0.05, dtype='float64')
        ah, _ = gen_hot_raster(rng, dtype='float64', rows=6, cols=7)
        chunks = gen_chunks(rng, 6, 7, rng.choice(['uneven', '1xwide', 'tallx1', 'blocks']))
        kw = weighted_kernel(rng, (3, 3), 1)
        k01 = np.array(gen_kernel01(rng, (3, 5), style='rand'), dtype='float64')
        kh = small_kernel01(rng, (3, 3))
        case = dict(fn='dask-one-compute', data=to_rows(a), hot=to_rows(ah), dask_chunks=chunks_json(chunks),
                    kernels=[kw.tolist(), k01.tolist(), kh.tolist()])
        ctx.case(case)
        ctx.count('theme/dask-one-compute')
        try:
            d = xr.DataArray(da.from_array(a, chunks=chunks), dims=['y', 'x'])
            dh = xr.DataArray(da.from_array(ah, chunks=chunks), dims=['y', 'x'])
            lazy_first = conv.convolution_2d(d, kw)                       # computed LAST, after the other library calls
            lz = [focal.apply(d, k01, funcs['sum']), focal.mean(d, passes=2, excludes=[NAN]), focal.hotspots(dh, kh),
                  focal.focal_stats(d, k01, stats_funcs=['max', 'sum'])]
            focal.apply(xr.DataArray(a + 1.0, dims=['y', 'x']), kh)       # unrelated calls in between
            conv.convolution_2d(xr.DataArray(da.from_array(a * 2.0, chunks=(2, 3)), dims=['y', 'x']), k01).compute()
            got = dask.compute(*[x.data for x in lz])
            got_first = lazy_first.data.compute()
        except Exception as e:
            ctx.violation('oracle', 'several Dask results from one dask.compute raised %s: %s' % (type(e).__name__, str(e)[:200]), case)
            continue
        D, DH = exact_grid(to_rows(a)), exact_grid(to_rows(ah))
        check_grid(ctx, to_rows(got[0]), oracle_apply(D, kfr(k01), 'sum'), 'f32', case, 'apply(sum) computed with one dask.compute')
        check_grid(ctx, to_rows(got[1]), oracle_mean(D, 2, [None]), 'f64tol', case, 'mean(passes=2) computed with one dask.compute')
        exp = oracle_hotspots(DH, kfr(kh), slack=3.0)
        for y, row in enumerate(np.asarray(got[2]).tolist()):
            for x, v in enumerate(row):
                if not exp[y][x][1] and int(v) != exp[y][x][0]:
                    ctx.violation('oracle', 'hotspots computed with one dask.compute: cell (%d,%d) is %d, expected %d' % (y, x, v, exp[y][x][0]), case)
        for i_, s_ in enumerate(['max', 'sum']):
            check_grid(ctx, to_rows(got[3][i_]), oracle_apply(D, kfr(k01), s_), 'f32', case, 'focal_stats layer %s from one dask.compute' % s_)
        check_grid(ctx, to_rows(got_first), oracle_conv(D, kfr(kw)), 'f32', case, 'convolution_2d computed after other calls')

    # ---- 4. + 6. call sequences on derived rasters; coordinates, attrs, names pass through and inputs stay untouched ------
    for si, (dims, ck) in enumerate([(('y', 'x'), 'desc'), (('lat', 'lon'), 'latlon'), (('y', 'x'), 'large')]):
        if q and si != rot % 3 and si != 0:
            continue
        with _Watch(ctx, dims, ck) as w:
            base, dtype = gen_raster(rng, rows=6, cols=7, kind='distinct', nanp=0.08, dtype='float64')
            hb, _ = gen_hot_raster(rng, dtype='float64', rows=6, cols=7)
            k1 = np.array(gen_kernel01(rng, (3, 3), style='rand'), dtype='float64')
            k2 = np.array(gen_kernel01(rng, (1, 3), style='rand'), dtype='float64')
            kw = weighted_kernel(rng, (3, 3), 1)
            derived = [('same', base), ('repeat', base), ('slice-view', base[1:, :-1]), ('copy', base.copy()),
                       ('astype-f32', np.round(base).astype('float32')), ('step-view', base[::2, ::-1])]
            for dname, arr in (derived if (not q or si == 0) else derived[2:4]):
                dt = str(arr.dtype)
                case = dict(fn='sequence', step=dname, dims=list(dims), coords=ck)
                ctx.count('theme/sequence/' + dname)
                for what, call in (('apply', lambda: run_apply(ctx, pend, arr, dt, k1, 'sum')),
                                   ('apply-other-kernel', lambda: run_apply(ctx, pend, arr, dt, k2, 'sum')),
                                   ('apply-again', lambda: run_apply(ctx, pend, arr, dt, k1, 'sum')),
                                   ('focal_stats', lambda: run_stats(ctx, pend, arr, dt, k1, ['min', 'sum'])),
                                   ('mean', lambda: run_mean(ctx, pend, arr, dt, 2, [NAN])),
                                   ('mean-default', lambda: run_mean(ctx, pend, arr, dt, 1, [NAN])),
                                   ('convolution_2d', lambda: run_conv(ctx, pend, arr, dt, kw)),
                                   ('hotspots', lambda: run_hotspots(ctx, pend, hb[:arr.shape[0], :arr.shape[1]], 'float64', k1 if np.any(k1 == 1) else np.ones((1, 1))))):
                    call()
                    w.verify('%s on the %s raster (dims %s, %s coordinates)' % (what, dname, '/'.join(dims), ck), dict(case, call=what))
    defaults_after = (list(inspect.signature(focal.mean).parameters['excludes'].default),
                      list(inspect.signature(focal.focal_stats).parameters['stats_funcs'].default))
    if repr(defaults_before) != repr(defaults_after):
        ctx.violation('oracle', 'the mutable default arguments of mean / focal_stats changed: %r -> %r' % (defaults_before, defaults_after),
                      dict(fn='defaults-mutated'))

    # ---- 5. parameters: falsy names, list-valued parameters as tuple / ndarray, kernels of hundreds of cells ---------------
    a, dtype = gen_raster(rng, rows=5, cols=6, dtype='float64')
    agg = xr.DataArray(a, dims=['y', 'x'])
    for nm in ('', None, 0):
        got = (focal.mean(agg, name=nm).name, focal.apply(agg, k33, name=nm).name, conv.convolution_2d(agg, k33, name=nm).name)
        if got != (nm, nm, nm):
            ctx.violation('oracle', 'name=%r gives result names %r' % (nm, got), dict(fn='name', name=repr(nm)))
    for sf in (('sum', 'max'), np.array(['var', 'min', 'mean'])):
        ctx.count('theme/stats_funcs-object/%s' % type(sf).__name__)
        try:
            res = focal.focal_stats(agg, k33, stats_funcs=sf)
            D = exact_grid(to_rows(a))
            if [str(x) for x in res.coords['stats'].values.tolist()] != [str(x) for x in sf]:
                ctx.violation('oracle', 'focal_stats(stats_funcs=%r) labels its layers %r' % (sf, res.coords['stats'].values.tolist()), dict(fn='stats-object'))
            for i_, s_ in enumerate(sf):
                check_grid(ctx, to_rows(res.data[i_]), oracle_apply(D, kfr(k33), str(s_)), mode_of(str(s_)), dict(fn='stats-object', layer=str(s_)),
                           'focal_stats(stats_funcs=%s) layer %s' % (type(sf).__name__, s_))
        except Exception as e:
            ctx.violation('oracle', 'focal_stats(stats_funcs=%r) raised %s' % (sf, type(e).__name__), dict(fn='stats-object'))
    for shape in ([(15, 21)] if q else [(15, 21), (9, 9), (25, 25), (31, 5), (3, 41)]):
        a, dtype = gen_raster(rng, rows=rng.randint(5, 8), cols=rng.randint(5, 8), kind='distinct', nanp=0.05, dtype='float64')
        ctx.count('theme/huge-kernel/%dx%d' % shape)
        run_apply(ctx, pend, a, dtype, np.array(gen_kernel01(rng, shape, style='rand'), dtype='float64'), 'u_idxsum')
        big, _ = gen_raster(rng, rows=shape[0] + 2, cols=shape[1] + 1, kind='int', nanp=0.0, dtype='float64')
        run_conv(ctx, pend, big, 'float64', np.array([[rng.choice([0.0, 1.0, -0.5, 0.25]) for _ in range(shape[1])] for _ in range(shape[0])]))

    # ---- 7. degenerate inputs: all-NaN, all-equal, a single valid cell, a kernel without any 1-entry -----------------------
    allnan = np.full((3, 4), NAN)
    alleq = np.full((3, 4), 6.0)
    single = np.full((4, 4), NAN)
    single[2, 1] = 5.0
    zk = np.zeros((3, 3))
    for nm, arr in (('all-NaN', allnan), ('all-equal', alleq), ('single-valid-cell', single)):
        ctx.count('theme/degenerate/' + nm)
        run_stats(ctx, pend, arr, 'float64', np.ones((3, 3)), None)
        run_apply(ctx, pend, arr, 'float64', k33, 'u_count')
        run_mean(ctx, pend, arr, 'float64', 2, [NAN])
        run_mean(ctx, pend, arr, 'float64', 1, [99999.0])
        run_conv(ctx, pend, arr, 'float64', np.array([[0.5, 0.0, -1.0]]))
    a, dtype = gen_raster(rng, rows=4, cols=5, dtype='float64')
    ctx.count('theme/degenerate/kernel-without-ones')
    run_stats(ctx, pend, a, dtype, zk, None)
    run_apply(ctx, pend, a, dtype, np.full((3, 3), 2.0), 'u_nnan')
    run_conv(ctx, pend, a, dtype, zk)
    compare_model(ctx, pend)
    fcompare(ctx, fpend)


# ---------------------------------------------------------------------------------------------
# KERNEL stream (appended last): ONE kernel object reused across the functions that take a kernel, on both
# backends; after every call the object must be byte-identical, and every result goes through the oracle with
# the kernel's ORIGINAL logical value
# ---------------------------------------------------------------------------------------------
def run_kernel_stream(ctx):
    rng = ctx.rng
    q = ctx.quick()
    pend = []
    focal, conv, funcs = _impl()

    def make_kernel(i):
        kind = ['circle', 'custom-f64', 'annulus', 'float32', 'int64', 'bool', 'int8', 'custom-f64-asym'][i % 8]
        if kind == 'circle':
            k = conv.circle_kernel(1, 1, rng.choice([1, 2]))
        elif kind == 'annulus':
            k = conv.annulus_kernel(1, 1, 2, 1)
        elif kind.startswith('custom-f64'):
            k = conv.custom_kernel(np.array(gen_kernel01(rng, rng.choice([(3, 3), (1, 3), (3, 5), (5, 3)]), style='rand'), dtype='float64'))
        else:
            k = np.array(gen_kernel01(rng, rng.choice([(3, 3), (3, 1), (3, 5)]), style='rand')).astype(kind)
        if not np.any(k == 1):
            k[k.shape[0] // 2, k.shape[1] // 2] = 1
        return kind, k

    n = 0
    for i in range(6 if q else 64):
        kind, k = make_kernel(i)
        k0 = np.array(k, copy=True)
        snap = (k.tobytes(), k.dtype, k.shape, k.strides, k.flags.writeable)
        ops = ['hotspots', 'convolution_2d', 'apply', 'focal_stats', 'hotspots', 'convolve_2d']
        if i % 2 or i >= 8:
            rng.shuffle(ops)                      # the first sequences keep the order hotspots -> convolution_2d -> apply -> focal_stats -> hotspots
        if q:
            ops = ops[:4 if i >= 2 else 6]
        backend = 'dask' if i % 4 == 3 else 'numpy'
        for op in ops:
            rows, cols = rng.randint(max(4, k.shape[0]), 7), rng.randint(max(4, k.shape[1]), 8)
            chunks = gen_chunks(rng, rows, cols, rng.choice(['blocks', 'uneven', '1xwide'])) if backend == 'dask' else None
            ctx.count('kernel-reuse/%s/%s/%s' % (backend, kind, op))
            n += 1
            if op == 'hotspots':
                a, dtype = gen_hot_raster(rng, dtype='float64', rows=rows, cols=cols)
                run_hotspots(ctx, pend, a, dtype, k, chunks=chunks, koracle=k0)
            elif op in ('convolution_2d', 'convolve_2d'):
                a, dtype = gen_raster(rng, rows=rows, cols=cols, nanp=0.0, dtype='float64')
                run_conv(ctx, pend, a, dtype, k, chunks=chunks, koracle=k0, entry=op)
            elif op == 'apply':
                a, dtype = gen_raster(rng, rows=rows, cols=cols, dtype='float64')
                run_apply(ctx, pend, a, dtype, k, ['sum', 'mean'][n % 2], chunks=chunks, koracle=k0)
            else:
                a, dtype = gen_raster(rng, rows=rows, cols=cols, dtype='float64')
                run_stats(ctx, pend, a, dtype, k, ['sum', 'max'], chunks=chunks, koracle=k0)
            now = (k.tobytes(), k.dtype, k.shape, k.strides, k.flags.writeable)
            if now != snap:                          # reported by kernel_untouched inside the runner (bytes, strides, flags: here)
                if np.array_equal(np.asarray(k), k0, equal_nan=(k0.dtype.kind == 'f')) and k.dtype == k0.dtype:
                    ctx.violation('oracle', '%s (%s backend) changed the strides / flags of the %s kernel it was given' % (op, backend, kind),
                                  dict(fn='kernel-reuse', op=op, backend=backend, kernel_kind=kind, kernel=k0.tolist(), sequence=ops))
                k = np.array(k0, copy=True).astype(k0.dtype)          # go on with a fresh object so that later findings are independent
                snap = (k.tobytes(), k.dtype, k.shape, k.strides, k.flags.writeable)
    compare_model(ctx, pend)


# ---------------------------------------------------------------------------------------------
# EXCLUDES stream (appended last): float64 rasters whose no-data values are NOT float32-representable
# (-9999.9, 0.1, 1e20, 2^24+1), excluded through a list / tuple / float64 array / float32 array (the effective value of
# the last form is the float32 one); the oracle demands that excluded cells pass through untouched
# ---------------------------------------------------------------------------------------------
def run_excludes_stream(ctx):
    rng = ctx.rng
    q = ctx.quick()
    pend = []
    special = [-9999.9, 0.1, 1e20, 16777217.0]
    n = 0
    for rep_ in range(1 if q else 8):
        for form in ('list', 'tuple', 'float64-array', 'float32-array'):
            for passes in ((1, 2, 0, 3) if not q else ((1, 3) if form != 'tuple' else (2, 0))):
                n += 1
                rows, cols = rng.randint(3, 6), rng.randint(3, 7)
                picks = rng.sample(special, rng.randint(1, 3))
                cells = []
                for _ in range(rows * cols):
                    u = rng.random()
                    cells.append(rng.choice(picks) if u < 0.3 else (NAN if u < 0.4 else float(rng.randint(-20, 40))))
                cells[rng.randrange(rows * cols)] = picks[0]
                a = np.array(cells, dtype='float64').reshape(rows, cols)
                ex = list(picks)
                if n % 2:
                    ex.insert(rng.randrange(len(ex) + 1), NAN)
                if form == 'list':
                    raw, logical = list(ex), ex
                elif form == 'tuple':
                    raw, logical = tuple(ex), ex
                elif form == 'float64-array':
                    raw, logical = np.array(ex, dtype='float64'), ex
                else:
                    raw = np.array(ex, dtype='float32')
                    logical = [float(v) for v in raw.tolist()]          # what a float32 array can hold
                ctx.count('excludes-not-float32/%s/passes=%d' % (form, passes))
                run_mean(ctx, pend, a, 'float64', passes, logical, raw_excludes=raw, mode='f64tol',
                         chunks=gen_chunks(rng, rows, cols, 'blocks') if n % 5 == 0 else None)
    compare_model(ctx, pend)


def search(ctx):
    """An obligation or the correspondence broke and the normal run showed no failing input: run the oracle on more inputs."""
    old, model = ctx.tier, ctx.model
    ctx.tier, ctx.model = 'thorough', None
    try:
        run(ctx)
    finally:
        ctx.tier, ctx.model = old, model


def replay_case(ctx, case):
    fn = case['fn']
    pend = []
    g = lambda key: unjson(case[key])   # noqa: E731
    if fn in ('apply', 'focal_stats', 'mean', 'convolution_2d', 'hotspots'):
        a = np.array(g('data'), dtype='float64')
        dtype = case.get('dtype', 'float64')
        a = a.astype(dtype) if dtype.startswith('float') else np.nan_to_num(a).astype(dtype)
    if fn in ('apply', 'focal_stats', 'convolution_2d', 'hotspots'):
        k = np.array(g('kernel'), dtype=case.get('kdtype', 'float64'))
    ch = chunks_from_json(case.get('dask_chunks'))
    if fn == 'apply':
        run_apply(ctx, pend, a, dtype, k, case['func'], chunks=ch)
    elif fn == 'focal_stats':
        run_stats(ctx, pend, a, dtype, k, case['stats'], chunks=ch)
    elif fn == 'mean':
        run_mean(ctx, pend, a, dtype, case['passes'], g('excludes'), chunks=ch)
    elif fn == 'convolution_2d':
        run_conv(ctx, pend, a, dtype, k, chunks=ch)
    elif fn == 'hotspots':
        run_hotspots(ctx, pend, a, dtype, k, chunks=ch)
    elif fn == 'kernel-reuse':
        run_kernel_stream(ctx)
    elif fn in ('sequence', 'dask-one-compute', 'defaults-mutated', 'name', 'stats-object') or fn.startswith('f_'):
        # findings of the theme / float streams depend on the call sequence: re-run those streams with the recorded seed
        run_float_stream(ctx)
        run_theme_stream(ctx)
    elif fn == '_calc_hotspots_numpy':
        run_hot(ctx, pend, np.array(g('z'), dtype=case.get('dtype', 'float64')))
    elif fn == 'custom_kernel':
        run_ck(ctx, pend, case['rows'], case['cols'], case.get('ndarray', True))
    compare_model(ctx, pend)
