"""C14 — A* returns a valid, shortest path between the cells the caller named.
Correspondence: xrspatial.pathfinding (a_star_search, _a_star_search, _find_nearest_pixel, _get_pixel_id) vs the
extracted Coq model coq/C14/Model.v (PrimFloat instance: bit-exact; exact a+b*sqrt2 instance: costs);
oracle: Dijkstra + chain checker + nearest-centre / nearest-crossable by exact arithmetic, from the property text."""
import ast
import heapq
import itertools
import math
import os
import warnings
from decimal import Decimal, getcontext
from fractions import Fraction

import numpy as np
import xarray as xr

from harness import xvio

ID = 'C14'
OCAML_PACKAGES = ['coq-core.kernel']
OCAML_FLAGS = '-rectypes -thread'

RULE = ('kernel/exhaustive: every free/blocked layout (blocked = barrier value or NaN) x every start/goal pair x connectivity 4/8 on '
        'all grids up to 3x3 plus 2x4, 4x2, 1x5, 5x1 (quick) / up to 3x4 and 4x3 (thorough) through the jitted _a_star_search, every layout x cell through '
        '_find_nearest_pixel; api: a_star_search on sampled small layouts and random mazes <= 9x9 with forced detours (walls with '
        'one gap), snap on/off, ascending/descending coordinates with steps 1, 0.1, 0.25, 1/3, 0.5, 2, 30 and offsets, points on '
        'cell centres, off-centre, exactly between centres and within half a cell outside the first/last centre, with and without '
        'a res attribute, float64 and int64 rasters; pixel: _get_pixel_id alone on the same coordinate families; '
        'appended theme streams: memory layouts of surface/coordinates (F, transposed, strided, reversed, non-writeable), barrier arrays of '
        'other dtypes, barrier values outside float32 / beyond 2**31 / tiny / huge with free cells one ulp around them in the cell\'s own '
        'dtype, float32 coordinates, spacing 1e6 / 1e-6 / arc-seconds, all-equal / all-NaN surfaces, repeated / copied / astype / '
        'interleaved-parameter call sequences with data, coords and attrs snapshots; sequences in one process: a raster without res is routed, then a strided / re-scaled / windowed view of the same DataArray, every call '
        'checked by the oracle on the cells\' own coordinates plus an attrs snapshot of the input before/after; barrier lists of 0-4 values in every order (ascending, descending, shuffled, with duplicates), each value present on the '
        'surface; far-island snapping: 4x4 ... 6x6 rasters whose only crossable cells sit in one corner, the end point in the opposite '
        'corner (kernel-level _find_nearest_pixel and the public API); a sample of detour cases is first run in a child process with a timeout so that a non-terminating search loop is reported as a failing input. A case is non-trivial when it has >= 1 '
        'crossable cell; cases are distinct by their JSON encoding.')
TRUSTED = [
    'the search state (is_open, is_closed, d_from_start, cost, parents) is modelled as pointwise-updated total functions on cells, '
    'NumPy int64/bool arrays are modelled by Z/bool (no overflow on rasters < 2^31 cells)',
    'raster values are embedded into Z by a common power-of-two scale (the model only tests them for NaN / equality with a barrier)',
    'float instance: Coq PrimFloat add/sqrt/div/abs/compare = NumPy float64; np.rint modelled as (x + 2^52) - 2^52 (round half even), '
    'int() of the rounded value by binary decomposition; validated only by the bit-exact correspondence run',
    'exact instance: the comparison of a + b*sqrt2 + sqrt n values (Model.sgn2 / sgn_plus2root / sgn3, by repeated squaring), '
    'xc_sqrtZ and xc_add are PROVED against Coq\'s real numbers (C14_exact_order_is_real_order, C14_exact_pair_order_is_real_order, '
    'C14_exact_sqrt_add_are_real); these and every theorem of PropsOptimal.v (optimality, never-stuck, Bellman-Ford agreement, '
    'snap at the exact instance) therefore depend on the three axioms of the standard library Reals: '
    'ClassicalDedekindReals.sig_forall_dec, ClassicalDedekindReals.sig_not_dec, '
    'FunctionalExtensionality.functional_extensionality_dep (Print Assumptions lists exactly these; the 12 theorems of Props.v stay '
    'closed under the global context); the comparator is additionally cross-checked on every run against 80-digit decimal arithmetic',
    'optimality is a theorem about the exact-cost instance (a + b*sqrt2 arithmetic without rounding); that the binary64 run of the '
    'code reaches the same cells/costs up to rounding is tied to it by the bit-exact float correspondence and the Dijkstra oracle only',
    'facts(): NONE, the neighbour offset tables, the initial bound of _min_cost_pixel_id, the initial distance of '
    '_find_nearest_pixel and the rounding mode of _get_pixel_id are translated from the source by a fail-closed ast matcher',
    'the warnings emitted for uncrossable end points and the xarray wrapping (coords/dims/attrs copy) are not modelled',
]
ASSUMPTIONS = [
    'NumPy backend; regularly spaced 1-D coordinates; start and goal lie within the raster extent (cell centres +- half a cell)',
    'route / neighbour / step length are those of the chosen connectivity (4: unit steps; 8: unit and sqrt2 diagonal steps), '
    'diagonal steps may pass between two blocked cells (the code does not forbid corner cutting, nor does the property)',
    'C14_never_stuck / C14_optimal_equals_bellman_ford: start AND goal cells lie in the grid (a_star_search checks both before calling '
    'the kernel; C14_a_star_cells_optimal covers the wrapper including a snapped goal of NONE). C14_optimal itself needs only the start in the grid',
]
PARTIAL = [
    'Props.C14_optimal_full_statement and Props.C14_never_stuck_full_statement as originally written (no premise on the goal cell) '
    'are FALSE and stay unclaimed: with the goal outside the grid the heuristic can reach (height+width)**2 and the kernel model is '
    'Stuck (C14_never_stuck_full_statement_refuted, C14_optimal_full_statement_refuted: 1x1 surface, goal 5 rows away). Claimed '
    'instead, for all grids: the same statements with the goal in the grid (C14_never_stuck, C14_optimal_equals_bellman_ford) and '
    'C14_optimal (goal value = minimum over all routes, NaN iff none; any goal) and C14_path_values_optimal (every path value)',
    'optimality / never-stuck are proved for the EXACT cost instance only; for binary64 costs (non-associative rounding) they are '
    'not theorems: ties between routes whose exact costs differ by less than an ulp can be broken differently, and the float run is '
    'covered by the Dijkstra oracle (tolerance 1e-9) and the bit-exact correspondence',
    'float-level facts (bit-exact costs, the coordinate->cell conversion at binary64) are correspondence-only; the nearest-centre '
    'theorem is proved for the exact integer model of the conversion (coordinates on a common scale)',
    'C14_snap_nearest (any cost type) keeps the premise that the order decides sqrt a < sqrt b as a < b; it is discharged for the '
    'exact instance (C14_snap_nearest_exact, all squared distances) and is true of binary64 for the squared distances that occur',
]
LEVEL_TEXT = ('Proved for all grids, barrier sets, offset tables and every cost instance (float or exact): the search never runs out '
              'of its h*w+1 pops nor the back-walk out of its h*w+1 steps; if it returns, then either the non-NaN cells are exactly one '
              'duplicate-free chain start(value 0)->goal of crossable in-grid cells, each step one generated neighbour offset adding '
              'exactly sqrt(dy^2+dx^2) (1 or sqrt2), or every cell is NaN and no route exists; snapping returns the first row-major '
              'nearest crossable cell (NONE iff none); the exact coordinate->cell model picks the nearest centre. '
              'Proved for all grids, surfaces, barrier sets and both connectivities at the exact cost instance a+b*sqrt2 (whose order, '
              'sqrt and + are proved to be those of the real numbers): the goal value is the MINIMUM cost over all routes of crossable '
              'cells (C14_optimal; invariant A5 with the Euclidean heuristic proved consistent) and so is every other non-NaN value of the '
              'returned path for its own cell (C14_path_values_optimal); the goal value equals the Bellman-Ford minimum '
              '(C14_optimal_equals_bellman_ford, with the reference itself proved correct), and the Stuck outcome is unreachable when '
              'start and goal lie in the grid (C14_never_stuck, C14_a_star_cells_optimal for the wrapper with snapping). '
              'C14_bounded_optimal_small (vm_compute, grids <= 3x3) remains as a supplement. The PrimFloat model is tied to the code by '
              'bit-exact comparison of whole outputs; optimality of the binary64 run is oracle + correspondence only.')
LEVEL_NOTE = ('Trusted: Coq kernel, extraction, the fail-closed facts translator (offset tables, NONE, bounds, rounding mode read from the '
              'source each run), PrimFloat = NumPy binary64 for + sqrt / abs <, the three standard axioms of Coq\'s Reals library '
              '(used only by PropsOptimal.v to give the exact order its meaning), the harness and oracle. Unproved: anything about '
              'optimality under binary64 rounding.')

SQRT2 = math.sqrt(2.0)


# --------------------------------------------------------------------------- facts
def _func(tree, name):
    for n in tree.body:
        if isinstance(n, ast.FunctionDef) and n.name == name:
            return n
    raise ValueError('function %s not found in pathfinding.py' % name)


def _int_const(n):
    if isinstance(n, ast.Constant) and isinstance(n.value, int) and not isinstance(n.value, bool):
        return n.value
    if isinstance(n, ast.UnaryOp) and isinstance(n.op, ast.USub) and isinstance(n.operand, ast.Constant) \
            and isinstance(n.operand.value, int):
        return -n.operand.value
    raise ValueError('expected an integer literal, got %s' % ast.dump(n))


def _int_list(n):
    if not isinstance(n, ast.List):
        raise ValueError('expected a list literal, got %s' % ast.dump(n))
    return [_int_const(e) for e in n.elts]


def _zexpr(n, names):
    """integer expression over the given names -> Coq Z expression"""
    if isinstance(n, ast.Name) and n.id in names:
        return n.id
    if isinstance(n, (ast.Constant, ast.UnaryOp)):
        v = _int_const(n)
        return '(%d)' % v
    if isinstance(n, ast.BinOp):
        ops = {ast.Add: '+', ast.Sub: '-', ast.Mult: '*', ast.Pow: '^'}
        for k, s in ops.items():
            if isinstance(n.op, k):
                if k is ast.Pow:
                    e = _int_const(n.right)
                    if e < 0:
                        raise ValueError('negative exponent')
                    return '(%s ^ %d)' % (_zexpr(n.left, names), e)
                return '(%s %s %s)' % (_zexpr(n.left, names), s, _zexpr(n.right, names))
    raise ValueError('unrecognised integer expression: %s' % ast.dump(n))


def _assign_to(fn, target):
    out = []
    for n in ast.walk(fn):
        if isinstance(n, ast.Assign) and len(n.targets) == 1 and isinstance(n.targets[0], ast.Name) \
                and n.targets[0].id == target:
            out.append(n)
    return out


def facts(repo):
    src = open(os.path.join(repo, 'xrspatial', 'pathfinding.py')).read()
    tree = ast.parse(src)
    # NONE
    none = None
    for n in tree.body:
        if isinstance(n, ast.Assign) and len(n.targets) == 1 and isinstance(n.targets[0], ast.Name) and n.targets[0].id == 'NONE':
            none = _int_const(n.value)
    if none is None:
        raise ValueError('NONE not found')
    # neighbour tables
    ns = _func(tree, '_neighborhood_structure')
    body = [b for b in ns.body if not (isinstance(b, ast.Expr) and isinstance(b.value, ast.Constant))]
    if len(body) != 2 or not isinstance(body[0], ast.If) or not isinstance(body[1], ast.Return):
        raise ValueError('_neighborhood_structure: unexpected shape')
    test = body[0].test
    if ast.dump(test) != ast.dump(ast.parse('connectivity == 8', mode='eval').body):
        raise ValueError('_neighborhood_structure: unexpected test %s' % ast.dump(test))
    if ast.dump(body[1].value) != ast.dump(ast.parse('(np.array(neighbor_ys), np.array(neighbor_xs))', mode='eval').body):
        raise ValueError('_neighborhood_structure: unexpected return')

    def tables(stmts):
        d = {}
        for s in stmts:
            if not (isinstance(s, ast.Assign) and len(s.targets) == 1 and isinstance(s.targets[0], ast.Name)):
                raise ValueError('_neighborhood_structure: unexpected statement %s' % ast.dump(s))
            d[s.targets[0].id] = _int_list(s.value)
        if sorted(d) != ['neighbor_xs', 'neighbor_ys'] or len(d['neighbor_xs']) != len(d['neighbor_ys']):
            raise ValueError('_neighborhood_structure: tables %r' % d)
        return list(zip(d['neighbor_ys'], d['neighbor_xs']))
    off8 = tables(body[0].body)
    off4 = tables(body[0].orelse)
    # the tables are consumed as (ys, xs) and zipped y-first
    wrapper = _func(tree, 'a_star_search')
    kern = _func(tree, '_a_star_search')
    want_unpack = ast.dump(ast.parse('neighbor_ys, neighbor_xs = _neighborhood_structure(connectivity)').body[0])
    if not any(ast.dump(n) == want_unpack for n in ast.walk(wrapper) if isinstance(n, ast.Assign)):
        raise ValueError('a_star_search no longer unpacks (neighbor_ys, neighbor_xs)')
    fors = [n for n in ast.walk(kern) if isinstance(n, ast.For)]
    want_t = ast.dump(ast.parse('(y, x)', mode='eval').body).replace('Load', 'Store')
    want_i = ast.dump(ast.parse('zip(neighbor_ys, neighbor_xs)', mode='eval').body)
    if len(fors) != 1 or ast.dump(fors[0].target) != want_t or ast.dump(fors[0].iter) != want_i:
        raise ValueError('_a_star_search: neighbour loop changed')
    argnames = [a.arg for a in kern.args.args]
    if argnames != ['data', 'path_img', 'start_py', 'start_px', 'goal_py', 'goal_px', 'barriers', 'neighbor_ys', 'neighbor_xs']:
        raise ValueError('_a_star_search: signature changed: %r' % argnames)
    # _min_cost_pixel_id initial bound
    mc = _assign_to(_func(tree, '_min_cost_pixel_id'), 'min_cost')
    if len(mc) != 2:
        raise ValueError('_min_cost_pixel_id: expected two assignments to min_cost')
    bound = _zexpr(mc[0].value, ('height', 'width'))
    # _find_nearest_pixel initial distance
    md = _assign_to(_func(tree, '_find_nearest_pixel'), 'min_distance')
    if len(md) != 2:
        raise ValueError('_find_nearest_pixel: expected two assignments to min_distance')
    v = md[0].value
    if ast.dump(v) == ast.dump(ast.parse('np.inf', mode='eval').body):
        snap = 'None'
    elif isinstance(v, ast.Call) and isinstance(v.func, ast.Name) and v.func.id == '_distance' and len(v.args) == 4 and not v.keywords:
        snap = 'Some (%s)' % ', '.join(_zexpr(a, ('height', 'width')) for a in v.args)
    else:
        raise ValueError('_find_nearest_pixel: unrecognised initial min_distance %s' % ast.dump(v))
    # _get_pixel_id rounding
    gp = _func(tree, '_get_pixel_id')
    modes = []
    signed = []
    for tgt, k, ax in (('py', 0, 'y'), ('px', 1, 'x')):
        a = _assign_to(gp, tgt)
        if len(a) != 1:
            raise ValueError('_get_pixel_id: assignment to %s' % tgt)
        q_abs = ast.dump(ast.parse('abs(point[%d] - %s_coords[0]) / cellsize_%s' % (k, ax, ax), mode='eval').body)
        q_sgn = ast.dump(ast.parse('sign_%s * (point[%d] - %s_coords[0]) / cellsize_%s' % (ax, k, ax, ax), mode='eval').body)
        e = a[0].value
        if not (isinstance(e, ast.Call) and isinstance(e.func, ast.Name) and e.func.id == 'int' and len(e.args) == 1 and not e.keywords):
            raise ValueError('_get_pixel_id: %s is not int(...)' % tgt)
        inner = e.args[0]
        rint = False
        if isinstance(inner, ast.Call) and ast.dump(inner.func) == ast.dump(ast.parse('np.rint', mode='eval').body) \
                and len(inner.args) == 1 and not inner.keywords:
            rint = True
            inner = inner.args[0]
        if ast.dump(inner) == q_abs:
            signed.append('false')
        elif ast.dump(inner) == q_sgn:
            sg = _assign_to(gp, 'sign_%s' % ax)
            want = ast.dump(ast.parse('sign_%s = -1 if %s_coords[-1] < %s_coords[0] else 1' % (ax, ax, ax)).body[0])
            if len(sg) != 1 or ast.dump(sg[0]) != want:
                raise ValueError('_get_pixel_id: unrecognised definition of sign_%s' % ax)
            signed.append('true')
        else:
            raise ValueError('_get_pixel_id: unrecognised conversion %s' % ast.dump(e.args[0]))
        modes.append('true' if rint else 'false')
    if signed[0] != signed[1]:
        raise ValueError('_get_pixel_id: py and px use different offsets')
    if modes[0] != modes[1]:
        raise ValueError('_get_pixel_id: py and px use different conversions')
    want_res = ast.dump(ast.parse('cellsize_x, cellsize_y = get_dataarray_resolution(raster, xdim, ydim)').body[0])
    if not any(ast.dump(n) == want_res for n in ast.walk(gp) if isinstance(n, ast.Assign)):
        raise ValueError('_get_pixel_id: cellsize computation changed')

    def pairs(l):
        return '[' + '; '.join('(%d, %d)' % p for p in l) + ']'
    out = '''(* GENERATED by harness/props/c14.py facts() from xrspatial/pathfinding.py — do not edit.
   Regenerated on every ./check run; gitignored. *)
Require Import Base.Prelude.

Definition NONE : Z := %d.

(* _neighborhood_structure: zip(neighbor_ys, neighbor_xs) as (dy, dx) *)
Definition offsets8 : list (Z * Z) := %s.
Definition offsets4 : list (Z * Z) := %s.

(* _min_cost_pixel_id: min_cost = (height + width) ** 2 *)
Definition min_cost_init (height width : Z) : Z := %s.

(* _find_nearest_pixel: initial min_distance.  None = np.inf;
   Some (x1, y1, x2, y2) = _distance(x1, y1, x2, y2) *)
Definition snap_init (height width : Z) : option (Z * Z * Z * Z) := %s.

(* _get_pixel_id: int(np.rint(q)) -> true (round half even); int(q) -> false (truncate) *)
Definition pixel_round_nearest : bool := %s.

(* _get_pixel_id: sign * (p - c0) with sign = -1 for descending coordinates -> true; abs(p - c0) -> false *)
Definition pixel_signed : bool := %s.
''' % (none, pairs(off8), pairs(off4), bound, snap, modes[0], signed[0])
    return {'Generated.v': out}


# --------------------------------------------------------------------------- implementation runners
def _pf():
    from xrspatial import pathfinding
    return pathfinding


def isnan(v):
    return isinstance(v, float) and math.isnan(v)


def blocked_val(v, barriers):
    """property text: a barrier or NaN cell"""
    return isnan(v) or any(v == b for b in barriers)


def run_kernel(pf, data, conn, barriers_arr, s, g):
    h, w = data.shape
    img = np.full((h, w), np.nan)
    nys, nxs = pf._neighborhood_structure(conn)
    pf._a_star_search(data, img, s[0], s[1], g[0], g[1], barriers_arr, nys, nxs)
    return img


def _point(p, kind):
    if kind == 'list':
        return [p[0], p[1]]
    if kind == 'ndarray':
        return np.array([p[0], p[1]])
    if kind == 'int' and float(p[0]).is_integer() and float(p[1]).is_integer():
        return (int(p[0]), int(p[1]))
    return (p[0], p[1])


def run_api(case, agg=None):
    """-> ('ok', 2-D list of floats) | ('err', code); agg: call on this DataArray instead of building one from the case"""
    from xrspatial import a_star_search
    given = agg
    data = np.array(case['data'], dtype='float64')
    if case.get('dtype', 'float64') != 'float64':
        data = data.astype(case['dtype'])
    attrs = {}
    if case.get('res') is not None:
        r = tuple(case['res'])
        rk = case.get('res_kind', 'tuple')
        if rk == 'list':
            attrs['res'] = [r[0], r[1]]
        elif rk == 'ndarray':
            attrs['res'] = np.array([r[0], r[1]])
        elif rk == 'scalar' and r[0] == r[1]:
            attrs['res'] = r[0]
        elif rk == 'int' and float(r[0]).is_integer() and float(r[1]).is_integer():
            attrs['res'] = (int(r[0]), int(r[1]))
        else:
            attrs['res'] = r
    ydim, xdim = case.get('dims', ['y', 'x'])
    cdt = 'float64'
    if case.get('coord_dtype') == 'int64' and all(float(v).is_integer() for v in case['ys'] + case['xs']):
        cdt = 'int64'
    agg = xr.DataArray(data, dims=[ydim, xdim], coords={ydim: np.array(case['ys'], dtype='float64').astype(cdt),
                                                         xdim: np.array(case['xs'], dtype='float64').astype(cdt)}, attrs=attrs)
    lay = case.get('layout')
    if lay and given is None:
        cy = np.array(case['ys'], dtype='float64').astype(case.get('coord_np_dtype', cdt))
        cx = np.array(case['xs'], dtype='float64').astype(case.get('coord_np_dtype', cdt))
        if lay == 'F':
            data = np.asfortranarray(data)
        elif lay == 'T':                          # transposed view of a C array
            data = np.ascontiguousarray(data.T).T
        elif lay == 'strided':
            big = np.full((data.shape[0] * 2, data.shape[1] * 3), 7, dtype=data.dtype)
            big[::2, ::3] = data
            data = big[::2, ::3]
        elif lay == 'reversed':
            data = np.ascontiguousarray(data[::-1, ::-1])[::-1, ::-1]
            cy = np.ascontiguousarray(cy[::-1])[::-1]
            cx = np.ascontiguousarray(cx[::-1])[::-1]
        elif lay == 'readonly':
            data = data.copy()
            data.setflags(write=False)
        agg = xr.DataArray(data, dims=[ydim, xdim], coords={ydim: cy, xdim: cx}, attrs=attrs)
    if given is not None:
        agg = given
    barriers = list(case['barriers'])
    if case.get('barrier_kind') == 'int' and all(not isnan(b) and not math.isinf(b) and float(b).is_integer() for b in barriers):
        barriers = [int(b) for b in barriers]
    elif case.get('barrier_kind') == 'ndarray':
        barriers = np.array(barriers, dtype='float64')
    elif case.get('barrier_kind') == 'tuple':
        barriers = tuple(barriers)
    elif str(case.get('barrier_kind', '')).startswith('np:'):
        barriers = np.array(barriers).astype(case['barrier_kind'][3:])
    elif case.get('barrier_kind') == 'strided':
        bb = np.zeros(len(barriers) * 2)
        bb[::2] = barriers
        barriers = bb[::2]
    start = _point(case['start'], case.get('point_kind', 'tuple'))
    goal = _point(case['goal'], case.get('point_kind', 'tuple'))
    try:
        with warnings.catch_warnings():
            warnings.simplefilter('ignore')
            if case.get('xy_default') and (ydim, xdim) == ('y', 'x'):
                out = a_star_search(agg, start, goal, barriers,
                                    connectivity=case['conn'], snap_start=bool(case['snap_start']),
                                    snap_goal=bool(case['snap_goal']))
            else:
                out = a_star_search(agg, start, goal, barriers, xdim, ydim,
                                    connectivity=case['conn'], snap_start=bool(case['snap_start']),
                                    snap_goal=bool(case['snap_goal']))
    except ValueError as e:
        m = str(e)
        if 'start location outside' in m:
            return ('err', 1)
        if 'goal location outside' in m:
            return ('err', 2)
        return ('err', 3)
    except (OverflowError, ZeroDivisionError):
        return ('err', 3)
    return ('ok', [[float(v) for v in row] for row in np.asarray(out.data).tolist()])


# --------------------------------------------------------------------------- oracle (from the property text)
def neighbours(conn):
    if conn == 4:
        return [(-1, 0), (1, 0), (0, -1), (0, 1)]
    return [(dy, dx) for dy in (-1, 0, 1) for dx in (-1, 0, 1) if (dy, dx) != (0, 0)]


def dijkstra_all(free, h, w, conn, s):
    """exact shortest route lengths from s as (a, b) = a + b*sqrt2 compared by value; free[y][x] bool"""
    if not free[s[0]][s[1]]:
        return {}
    dist = {s: (0, 0)}
    pq = [(0.0, 0, 0, s)]
    done = set()
    nb = neighbours(conn)
    while pq:
        f, a, b, c = heapq.heappop(pq)
        if c in done:
            continue
        done.add(c)
        for dy, dx in nb:
            y, x = c[0] + dy, c[1] + dx
            if 0 <= y < h and 0 <= x < w and free[y][x] and (y, x) not in done:
                na, nb_ = (a + 1, b) if dy == 0 or dx == 0 else (a, b + 1)
                nf = na + nb_ * SQRT2
                old = dist.get((y, x))
                if old is None or nf < old[0] + old[1] * SQRT2 - 1e-9:
                    dist[(y, x)] = (na, nb_)
                    heapq.heappush(pq, (nf, na, nb_, (y, x)))
    return dist


def check_path(out, free, h, w, conn, starts, goals, dist_from):
    """out: 2-D list of floats (NaN = not on the path); starts/goals: acceptable cells (sets);
    dist_from(s) -> dict of exact minima.  Returns None if the property holds, else a description."""
    cells = [(out[y][x], (y, x)) for y in range(h) for x in range(w) if not isnan(out[y][x])]
    if not cells:
        # all NaN is right iff for some acceptable (s, g) there is no route (incl. uncrossable end points)
        for s in starts:
            for g in goals:
                if s is None or g is None:
                    return None
                if g not in dist_from(s):
                    return None
        return 'every cell is NaN although a route joins start %r and goal %r' % (sorted(starts), sorted(goals))
    cells.sort()
    v0, c0 = cells[0]
    if c0 not in starts:
        return 'the chain starts at %r, but the start coordinates denote %r' % (c0, sorted(x for x in starts if x))
    if v0 != 0.0:
        return 'the start cell %r has value %r, expected 0' % (c0, v0)
    for v, c in cells:
        if not free[c[0]][c[1]]:
            return 'path enters the barrier/NaN cell %r' % (c,)
    nb = neighbours(conn)
    for (v1, c1), (v2, c2) in zip(cells, cells[1:]):
        d = (c2[0] - c1[0], c2[1] - c1[1])
        if d not in nb:
            return 'cells %r (value %r) and %r (value %r) are consecutive in the chain but not %d-neighbours' % (c1, v1, c2, v2, conn)
        step = 1.0 if d[0] == 0 or d[1] == 0 else SQRT2
        if abs((v2 - v1) - step) > 1e-9:
            return 'step %r -> %r adds %r, expected %r' % (c1, c2, v2 - v1, step)
    vg, cg = cells[-1]
    if cg not in goals:
        return 'the chain ends at %r, but the goal coordinates denote %r' % (cg, sorted(x for x in goals if x))
    best = dist_from(c0).get(cg)
    if best is None:
        return 'internal: chain to an unreachable goal'
    if abs(vg - (best[0] + best[1] * SQRT2)) > 1e-9:
        return 'goal value %r is not the minimum %d + %d*sqrt2 = %r over all routes' % (vg, best[0], best[1], best[0] + best[1] * SQRT2)
    return None


def nearest_centres(coords, p, cellsize=None):
    """property text: the cell whose centre is nearest (exact arithmetic; ties and near-ties within 1e-9 cell accepted).
    -> (set of acceptable indices, outside, edge): outside = beyond the first/last centre by more than half a cell,
    edge = beyond it by (nearly) exactly half a cell or more"""
    cs = [Fraction(c) for c in coords]
    pp = Fraction(p)
    ds = [abs(pp - c) for c in cs]
    m = min(ds)
    step = abs(cs[1] - cs[0]) if len(cs) > 1 else Fraction(cellsize if cellsize else 1)
    tol = step / 10 ** 9
    beyond = pp < min(cs) or pp > max(cs)
    return set(i for i, d in enumerate(ds) if d <= m + tol), (beyond and m > step / 2 + tol), (beyond and m >= step / 2 - tol)


def snap_targets(free, h, w, c):
    """property text: the nearest crossable cell (all ties); {None} if there is none"""
    if free[c[0]][c[1]]:
        return {c}
    best = None
    res = set()
    for y in range(h):
        for x in range(w):
            if free[y][x]:
                d = (y - c[0]) ** 2 + (x - c[1]) ** 2
                if best is None or d < best:
                    best, res = d, {(y, x)}
                elif d == best:
                    res.add((y, x))
    return res or {None}


def oracle_api(case, res):
    """returns (what, key) or None"""
    data = case['data']
    h, w = len(data), len(data[0])
    barriers = case['barriers']
    free = [[not blocked_val(v, barriers) for v in row] for row in data]
    conn = case['conn']
    rx, ry = case['res'] if case.get('res') else (None, None)
    sy, outy_s, edge_ys = nearest_centres(case['ys'], case['start'][0], ry)
    sx, outx_s, edge_xs = nearest_centres(case['xs'], case['start'][1], rx)
    gy, outy_g, edge_yg = nearest_centres(case['ys'], case['goal'][0], ry)
    gx, outx_g, edge_xg = nearest_centres(case['xs'], case['goal'][1], rx)
    if res[0] == 'err':
        # only a point outside the raster extent may be refused
        if res[1] == 1 and (outy_s or outx_s or edge_ys or edge_xs):
            return None
        if res[1] == 2 and (outy_g or outx_g or edge_yg or edge_xg):
            return None
        if res[1] == 3 and (len(case['ys']) < 2 or len(case['xs']) < 2) and case.get('res') is None:
            return None          # resolution of a single row/column is undefined without a res attribute
        return ('a_star_search raised (code %d) for start %r goal %r inside the raster' % (res[1], case['start'], case['goal']),
                pixel_key(case))
    if outy_s or outx_s or outy_g or outx_g:
        # a point more than half a cell outside the raster denotes no cell: the only acceptable outcome is the documented
        # refusal (ValueError "... location outside the surface graph"), never a path from some cell inside
        who = 'start' if (outy_s or outx_s) else 'goal'
        pt = case[who]
        before = False
        for coords, v, o in ((case['ys'], pt[0], outy_s if who == 'start' else outy_g),
                             (case['xs'], pt[1], outx_s if who == 'start' else outx_g)):
            if o and (len(coords) < 2 or (Fraction(v) - Fraction(coords[0])) * (Fraction(coords[-1]) - Fraction(coords[0])) < 0):
                before = True
        return ('the %s point %r lies more than half a cell outside the raster (y centres %r..%r, x centres %r..%r) but '
                'a_star_search did not refuse it and returned a raster' % (who, pt, case['ys'][0], case['ys'][-1], case['xs'][0],
                                                                          case['xs'][-1]),
                'pixel-id-mirrors-outside-point' if before else None)
    starts = set(itertools.product(sy, sx))
    goals = set(itertools.product(gy, gx))
    if case['snap_start']:
        starts = set().union(*[snap_targets(free, h, w, c) for c in starts])
    if case['snap_goal']:
        goals = set().union(*[snap_targets(free, h, w, c) for c in goals])
    cache = {}

    def dist_from(s):
        if s not in cache:
            cache[s] = dijkstra_all(free, h, w, conn, s)
        return cache[s]
    what = check_path(res[1], free, h, w, conn, starts, goals, dist_from)
    if what is None:
        return None
    key = None
    if 'coordinates denote' in what or 'every cell is NaN' in what:
        key = pixel_key(case) or snap_key(case, free, starts, goals)
    return (what, key)


def pixel_key(case):
    """finding key 'pixel-id-truncates': truncation and nearest-centre disagree for one of the four coordinates"""
    rx, ry = case['res'] if case.get('res') else (None, None)
    for coords, p, r in ((case['ys'], case['start'][0], ry), (case['xs'], case['start'][1], rx),
                         (case['ys'], case['goal'][0], ry), (case['xs'], case['goal'][1], rx)):
        if r is not None:
            cs = float(r)
        elif len(coords) >= 2:
            cs = (max(coords) - min(coords)) / (len(coords) - 1)
        else:
            continue
        if cs == 0:
            continue
        t = abs(float(p) - float(coords[0])) / cs
        near, _, _ = nearest_centres(coords, p, r)
        if int(t) not in near:
            return 'pixel-id-truncates'
    return None


def snap_key(case, free, starts, goals):
    """finding key 'snap-corner-to-corner': snapping on, the only nearest crossable cell is at the full diagonal distance"""
    h, w = len(free), len(free[0])
    if not (case['snap_start'] or case['snap_goal']):
        return None
    diag = (h - 1) ** 2 + (w - 1) ** 2
    for cells in (starts, goals):
        for c in cells:
            if c is not None and c in ((0, 0), (0, w - 1), (h - 1, 0), (h - 1, w - 1)):
                opp = (h - 1 - c[0], w - 1 - c[1])
                if (c[0] - opp[0]) ** 2 + (c[1] - opp[1]) ** 2 == diag and not free[opp[0]][opp[1]]:
                    return 'snap-corner-to-corner'
    return None


# --------------------------------------------------------------------------- model lines
def xv_tok(v):
    if isnan(v):
        return 'nan'
    if math.isinf(v):
        return 'inf' if v > 0 else '-inf'
    return None


def grid_line(data, barriers):
    vals = [v for row in data for v in row] + list(barriers)
    s = xvio.scale_for([float(v) for v in vals])
    return '%s %s' % (xvio.grid([[float(v) for v in row] for row in data], s), xvio.lst([float(b) for b in barriers], s))


def fhex(v):
    v = float(v)
    if math.isnan(v):
        return 'nan'
    if math.isinf(v):
        return 'inf' if v > 0 else '-inf'
    return v.hex()


def cells_line(op, conn, ss, sg, data, barriers, s, g, gl=None):
    return '%s %d %d %d %s %d %d %d %d' % (op, conn, int(ss), int(sg), gl or grid_line(data, barriers), s[0], s[1], g[0], g[1])


def full_line(case):
    res = case.get('res')
    return 'full %d %d %d %s %d %s %d %s %s %s %s %s %s %s' % (
        case['conn'], int(case['snap_start']), int(case['snap_goal']), grid_line(case['data'], case['barriers']),
        len(case['ys']), ' '.join(fhex(v) for v in case['ys']), len(case['xs']), ' '.join(fhex(v) for v in case['xs']),
        fhex(res[0]) if res is not None else '-', fhex(res[1]) if res is not None else '-',
        fhex(case['start'][0]), fhex(case['start'][1]), fhex(case['goal'][0]), fhex(case['goal'][1]))


def parse_float_out(mo):
    """model output -> ('err', code) | ('stuck',) | ('ok', flat list of floats)"""
    if mo.startswith('ERR'):
        t = mo.split()
        return ('err', int(t[1]) if len(t) > 1 and t[1].lstrip('-').isdigit() else mo)
    if mo in ('STUCK', 'FUEL'):
        return (mo.lower(),)
    return ('ok', [float('nan') if t == 'nan' else float.fromhex(t) for t in mo.split()])


def same_float(a, b):
    return (isnan(a) and isnan(b)) or a == b


def compare_float(ctx, what, impl, mo, case):
    ctx.traces += 1
    m = parse_float_out(mo)
    if impl[0] == 'err' or m[0] != 'ok':
        if impl[0] == 'err' and m[0] == 'err' and impl[1] == m[1]:
            return True
        ctx.violation('correspondence', '%s: implementation %r vs model %r' % (what, impl if impl[0] == 'err' else 'a raster', mo[:60]),
                      dict(case, model=mo[:200]))
        return False
    flat = [v for row in impl[1] for v in row]
    if len(flat) != len(m[1]):
        ctx.violation('correspondence', '%s: model returned %d cells for %d' % (what, len(m[1]), len(flat)), case)
        return False
    for i, (a, b) in enumerate(zip(flat, m[1])):
        if not same_float(a, b):
            ctx.violation('correspondence', '%s: implementation %r vs model %r at flat index %d (bit-exact comparison)' % (what, a, b, i),
                          dict(case, impl=flat, model=m[1]))
            return False
    return True


# --------------------------------------------------------------------------- generators
def layouts(h, w):
    for bits in itertools.product((1.0, 0.0), repeat=h * w):
        yield [list(bits[r * w:(r + 1) * w]) for r in range(h)]


BARRIER_VALUES = [0.0, 5.0, 7.0, 9.0]      # never used for a free cell
FREE_VALUES = [1.0, 1.0, 2.0, 3.0, 4.0]


def barrier_list(rng, allow_empty=True, special=True):
    """barrier values exactly as a caller might list them: 0-5 values in ANY order (ascending, descending, shuffled),
    sometimes with duplicates, a value that occurs nowhere on the surface (11), NaN or +-inf entries"""
    u = rng.random()
    if u < 0.08 and allow_empty:
        return []
    k = 1 if u < 0.3 else rng.choice([2, 2, 2, 3, 3, 4])
    vals = rng.sample(BARRIER_VALUES, k)
    order = rng.random()
    if order < 0.3:
        vals.sort()
    elif order < 0.6:
        vals.sort(reverse=True)
    if rng.random() < 0.25:
        vals.insert(rng.randrange(len(vals) + 1), rng.choice(vals))
    if rng.random() < 0.15:
        vals.insert(rng.randrange(len(vals) + 1), 11.0)                      # absent from every surface
    if special and rng.random() < 0.12:
        vals.insert(rng.randrange(len(vals) + 1), rng.choice([float('nan'), float('inf'), float('-inf')]))
    return vals


def decorate(rng, lay, integer=False):
    """free cells get assorted values (incl. barrier candidates that are NOT listed this time, negatives, +-inf), blocked cells one
    of the listed barrier values (each of them is used when there are enough blocked cells) or NaN (integer rasters: barrier
    values only, all values within int8/uint8 range)"""
    barriers = barrier_list(rng, allow_empty=not integer, special=not integer)
    real = [b for b in barriers if not isnan(b) and b != 11.0]
    nblocked = sum(1 for row in lay for v in row if not v)
    pool = list(dict.fromkeys(real))
    rng.shuffle(pool)
    freev = FREE_VALUES + [v for v in BARRIER_VALUES if v not in real]
    if not integer:
        freev = freev + [-2.0, 0.5] + [v for v in (float('inf'), float('-inf')) if v not in real]
    if integer and not real:
        real = pool = [0.0]
        barriers = barriers + [0.0]
        freev = [v for v in freev if v != 0.0]
    data = []
    k = 0
    for row in lay:
        r = []
        for v in row:
            if v:
                r.append(rng.choice(freev))
            else:
                if not real or (not integer and rng.random() < (0.25 if nblocked > 1 else 0.1)):
                    r.append(float('nan'))
                elif k < len(pool):
                    r.append(pool[k])             # make sure every listed value occurs on the surface
                else:
                    r.append(rng.choice(real))
                k += 1
        data.append(r)
    return data, barriers


def maze(rng, h, w):
    """free grid with full walls (rows or columns) each pierced by one gap at alternating ends -> forced detours"""
    lay = [[1.0] * w for _ in range(h)]
    vertical = rng.random() < 0.5
    n = w if vertical else h
    m = h if vertical else w
    k = 1
    side = rng.random() < 0.5
    while k < n - 1:
        gap = (0 if side else m - 1) if rng.random() < 0.7 else rng.randrange(m)
        for i in range(m):
            if i != gap:
                if vertical:
                    lay[i][k] = 0.0
                else:
                    lay[k][i] = 0.0
        side = not side
        k += rng.choice([2, 2, 3])
    # sprinkle a few extra obstacles / openings
    for _ in range(rng.randint(0, 3)):
        lay[rng.randrange(h)][rng.randrange(w)] = rng.choice([0.0, 1.0])
    return lay


STEPS = [1.0, 0.1, 0.25, 1.0 / 3.0, 0.5, 2.0, 30.0]
OFFSETS = [0.0, -3.5, 100.25, 0.7, -0.05, 1e3]


def axis(rng, n, step=None):
    step = rng.choice(STEPS) if step is None else step
    c0 = rng.choice(OFFSETS)
    kind = rng.random()
    if kind < 0.5:
        cs = [c0 + i * step for i in range(n)]
    elif kind < 0.8:
        cs = [float(v) for v in np.linspace(c0, c0 + (n - 1) * step, n)]
    else:
        cs = [float(v) for v in (np.arange(n) * step + c0)]
    if rng.random() < 0.5:
        cs = cs[::-1]
    return cs, step


def point_for(rng, coords, step, i, fam):
    """a coordinate that denotes cell i of this axis"""
    c = coords[i]
    n = len(coords)
    if fam == 'centre' or n < 2:
        return c
    sgn = 1.0 if coords[-1] > coords[0] else -1.0          # direction of increasing index
    if fam == 'off':
        f = rng.choice([-0.45, -0.3, -0.1, 0.1, 0.3, 0.45])
    elif fam == 'late':                                    # in the upper half of the cell: truncation picks it, fine; lower half too
        f = rng.choice([0.26, 0.4, 0.49, -0.26, -0.4, -0.49])
    else:                                                  # 'between': exactly half-way to a neighbouring centre (either is right)
        f = rng.choice([-0.5, 0.5])
        j = i + (1 if f > 0 else -1)
        if 0 <= j < n:
            return (coords[i] + coords[j]) / 2.0
        f = 0.4 * (1 if f > 0 else -1)
    return c + sgn * f * step


OTHER_DTYPES = ['int8', 'int16', 'int32', 'uint8', 'uint16', 'uint32', 'uint64', 'float32']


def gen_api_case(rng, lay, conn=None, snap=None, unit=False, fam=None, dtype='float64', ends=None):
    h, w = len(lay), len(lay[0])
    data, barriers = decorate(rng, lay, integer=not dtype.startswith('float'))
    if unit:
        ys, sy_ = [float(i) for i in range(h)], 1.0
        xs, sx_ = [float(i) for i in range(w)], 1.0
        if rng.random() < 0.5:
            ys = ys[::-1]
    else:
        ys, sy_ = axis(rng, h)
        xs, sx_ = axis(rng, w) if rng.random() < 0.6 else axis(rng, w, sy_)
    fam = fam or rng.choice(['centre', 'centre', 'off', 'late', 'between'])
    s = (rng.randrange(h), rng.randrange(w))
    g = (rng.randrange(h), rng.randrange(w))
    if ends is not None:
        s, g = ends
    elif rng.random() < 0.7:
        # prefer far apart crossable end points
        fr = [(y, x) for y in range(h) for x in range(w) if lay[y][x]]
        if len(fr) >= 2:
            s = rng.choice(fr)
            g = max(rng.sample(fr, min(4, len(fr))), key=lambda c: (c[0] - s[0]) ** 2 + (c[1] - s[1]) ** 2)
    res = None
    if h < 2 or w < 2 or rng.random() < 0.2:
        res = (abs(sx_), abs(sy_))
    snap = snap if snap is not None else (rng.random() < 0.4, rng.random() < 0.4)
    case = dict(fn='api', data=data, barriers=barriers, dtype=dtype, conn=conn or rng.choice([4, 8]), snap_start=bool(snap[0]),
                snap_goal=bool(snap[1]), ys=ys, xs=xs, res=res, fam=fam,
                res_kind=rng.choice(['tuple', 'tuple', 'list', 'ndarray', 'scalar', 'int']),
                dims=rng.choice([['y', 'x'], ['y', 'x'], ['lat', 'lon'], ['row', 'col']]), xy_default=rng.random() < 0.3,
                coord_dtype=rng.choice(['float64', 'float64', 'int64']),
                point_kind=rng.choice(['tuple', 'tuple', 'list', 'ndarray', 'int']),
                barrier_kind=rng.choice(['list', 'list', 'list', 'int', 'ndarray', 'tuple']) if dtype == 'float64' else 'list',
                start=[point_for(rng, ys, sy_, s[0], fam), point_for(rng, xs, sx_, s[1], fam)],
                goal=[point_for(rng, ys, sy_, g[0], fam), point_for(rng, xs, sx_, g[1], fam)])
    return case


# --------------------------------------------------------------------------- the run
def exhaustive_kernel(ctx, pf, shapes):
    """every layout x start/goal pair x connectivity through the jitted kernel, vs model (bit-exact) and oracle"""
    rng = ctx.rng
    pending = []
    for (h, w) in shapes:
        for lay in layouts(h, w):
            data, barriers = decorate(rng, lay)
            arr = np.array(data, dtype='float64')
            barr = np.array(barriers)
            free = [[bool(v) for v in row] for row in lay]
            # the decoration must realise the layout
            assert all(free[y][x] == (not blocked_val(data[y][x], barriers)) for y in range(h) for x in range(w))
            cells = [(y, x) for y in range(h) for x in range(w)]
            gl = grid_line(data, barriers)
            ctx.case(dict(fn='kernel-layout', data=data, barriers=barriers), nontrivial=any(any(r) for r in lay))
            for conn in (4, 8):
                ctx.count('kernel/%dx%d/conn%d' % (h, w, conn), len(cells) ** 2)
                for s in cells:
                    dist = dijkstra_all(free, h, w, conn, s)
                    for g in cells:
                        case = None
                        ctx.evaluations += 1
                        out = run_kernel(pf, arr, conn, barr, s, g).tolist()
                        what = check_path(out, free, h, w, conn, {s}, {g}, lambda _s: dist)
                        if what is not None:
                            case = dict(fn='kernel', data=data, barriers=barriers, conn=conn, start=list(s), goal=list(g))
                            ctx.violation('oracle', '_a_star_search %dx%d conn %d start %r goal %r: %s' % (h, w, conn, s, g, what),
                                          dict(case, got=out), key=None)
                        pending.append((cells_line('cells', conn, 0, 0, data, barriers, s, g, gl), out,
                                        (data, barriers, conn, s, g)))
            if len(pending) >= 40000:
                flush_kernel(ctx, pending)
                pending = []
    flush_kernel(ctx, pending)


def flush_kernel(ctx, pending):
    if ctx.model is None or not pending:
        return
    outs = ctx.model.run([p[0] for p in pending])
    bad = 0
    for (line, out, info), mo in zip(pending, outs):
        ctx.traces += 1
        m = parse_float_out(mo)
        flat = [v for row in out for v in row]
        ok = m[0] == 'ok' and len(m[1]) == len(flat) and all(same_float(a, b) for a, b in zip(flat, m[1]))
        if not ok and bad < 5:
            bad += 1
            data, barriers, conn, s, g = info
            ctx.violation('correspondence', '_a_star_search vs model kernel: implementation %r vs model %s' % (flat, mo[:120]),
                          dict(fn='kernel', data=data, barriers=barriers, conn=conn, start=list(s), goal=list(g), model=mo[:300]))


def snap_check(ctx, pf, lay, data, barriers, cells=None):
    """_find_nearest_pixel on the given cells of one surface vs the nearest-crossable oracle"""
    h, w = len(lay), len(lay[0])
    arr = np.array(data, dtype='float64')
    barr = np.array(barriers, dtype='float64')
    free = [[bool(v) for v in row] for row in lay]
    for (y, x) in (cells if cells is not None else [(y, x) for y in range(h) for x in range(w)]):
        ctx.evaluations += 1
        got = tuple(int(v) for v in pf._find_nearest_pixel(y, x, arr, barr))
        want = snap_targets(free, h, w, (y, x))
        g2 = None if got == (-1, -1) else got
        if g2 not in want:
            case = dict(fn='snap', data=data, barriers=barriers, cell=[y, x])
            corner = (y, x) in ((0, 0), (0, w - 1), (h - 1, 0), (h - 1, w - 1)) and \
                want == {(h - 1 - y, w - 1 - x)} and g2 is None and h <= 3 and w <= 3
            ctx.violation('oracle', '_find_nearest_pixel(%d, %d) on %r returned %r, the nearest crossable cell is %r' % (
                y, x, lay, got, sorted(want, key=str)), dict(case, got=list(got)),
                key='snap-corner-to-corner' if corner else None)


def exhaustive_snap(ctx, pf, shapes):
    """_find_nearest_pixel on every layout x cell vs the nearest-crossable oracle (the model's snapping is compared
    through the api stream)"""
    rng = ctx.rng
    for (h, w) in shapes:
        for lay in layouts(h, w):
            data, barriers = decorate(rng, lay)
            ctx.count('snap/%dx%d' % (h, w), h * w)
            snap_check(ctx, pf, lay, data, barriers)


def far_islands(ctx, pf):
    """snapping over a long distance: a nodata/barrier raster of 4x4 ... 6x6 whose only crossable cells are a small island in one
    corner, the end point to snap in (or next to) the opposite corner — the island is at pixel distance >= max(h, w)"""
    rng = ctx.rng
    cases = []
    for (h, w) in [(4, 4), (4, 5), (5, 4), (5, 5), (5, 6), (6, 5), (6, 6), (4, 6), (6, 4)]:
        for (cy, cx) in [(0, 0), (0, w - 1), (h - 1, 0), (h - 1, w - 1)]:
            iy, ix = h - 1 - cy, w - 1 - cx                    # the island's corner
            dy, dx = (1 if iy == 0 else -1), (1 if ix == 0 else -1)
            for island in ([(iy, ix)], [(iy, ix), (iy + dy, ix)], [(iy, ix), (iy, ix + dx)],
                           [(iy, ix), (iy + dy, ix), (iy, ix + dx)]):
                lay = [[0.0] * w for _ in range(h)]
                for (y, x) in island:
                    lay[y][x] = 1.0
                data, barriers = decorate(rng, lay)
                ey, ex = (1 if cy == 0 else -1), (1 if cx == 0 else -1)
                ends = [(cy, cx), (cy + ey, cx), (cy, cx + ex)]
                ctx.count('snap-far/%dx%d' % (h, w), len(ends))
                snap_check(ctx, pf, lay, data, barriers, ends)
                e = ends[0] if len(island) > 1 else rng.choice(ends)
                for k, snap in enumerate([(True, False), (False, True), (True, True)]):
                    on = island[-1]
                    se = (e, on) if snap == (True, False) else ((on, e) if snap == (False, True) else (e, rng.choice(ends)))
                    c = gen_api_case(rng, lay, snap=snap, unit=(k != 1), fam='centre' if k != 1 else None, ends=se)
                    cases.append(c)
    api_batch(ctx, cases, 'api-snap-far')


def api_batch(ctx, cases, label):
    pending = []
    for case in cases:
        ctx.case(case, nontrivial=any(not blocked_val(v, case['barriers']) for row in case['data'] for v in row))
        ctx.count('%s/conn%d/snap%d%d/%s/%s' % (label, case['conn'], case['snap_start'], case['snap_goal'], case.get('fam', '-'),
                                          case.get('dtype', 'float64')))
        b = case['barriers']
        fin = [v for v in b if not isnan(v) and not math.isinf(v)]
        ctx.count('barriers/n=%d/%s%s%s' % (len(b), 'asc' if fin == sorted(fin) else ('desc' if fin == sorted(fin, reverse=True) else 'mixed'),
                                            '+dup' if len(set(fin)) < len(fin) else '', '+naninf' if len(fin) < len(b) else ''))
        ctx.count('form/dims=%s%s/res=%s/coords=%s/point=%s/barriers=%s' % (
            case.get('dims', ['y', 'x'])[1], '-default' if case.get('xy_default') and case.get('dims', ['y', 'x'])[1] == 'x' else '',
            case.get('res_kind') if case.get('res') else 'none', case.get('coord_dtype'), case.get('point_kind'), case.get('barrier_kind')))
        ctx.count('shape/%s' % ('1xN' if len(case['data']) == 1 or len(case['data'][0]) == 1 else
                                ('<=9' if max(len(case['data']), len(case['data'][0])) <= 9 else '>9')))
        res = run_api(case)
        o = oracle_api(case, res)
        if o is not None:
            ctx.violation('oracle', 'a_star_search: %s' % o[0], dict(case, got=res[1]), key=o[1])
        pending.append((full_line(case), res, case))
    if ctx.model is not None and pending:
        outs = ctx.model.run([p[0] for p in pending])
        bad = 0
        for (line, res, case), mo in zip(pending, outs):
            if not compare_float(ctx, 'a_star_search vs model', res, mo, case):
                bad += 1
                if bad > 5:
                    break


def pixel_cases(ctx, n):
    """_get_pixel_id alone: float model (bit-exact index) + exact integer model on dyadic inputs + nearest-centre oracle"""
    pf = _pf()
    rng = ctx.rng
    lines, info = [], []
    for i in range(n):
        h, w = rng.randint(2, 9), rng.randint(2, 9)
        ys, sy_ = axis(rng, h)
        xs, sx_ = axis(rng, w)
        fam = rng.choice(['centre', 'off', 'late', 'between'])
        cy, cx = rng.randrange(h), rng.randrange(w)
        p = (point_for(rng, ys, sy_, cy, fam), point_for(rng, xs, sx_, cx, fam))
        res = (abs(sx_), abs(sy_)) if rng.random() < 0.2 else None
        case = dict(fn='pixel', ys=ys, xs=xs, point=list(p), res=res, fam=fam)
        ctx.case(case)
        ctx.count('pixel/%s/step%g' % (fam, sy_))
        agg = xr.DataArray(np.zeros((h, w)), dims=['y', 'x'], coords={'y': ys, 'x': xs},
                           attrs={'res': res} if res is not None else {})
        try:
            got = tuple(int(v) for v in pf._get_pixel_id(p, agg, 'x', 'y'))
        except Exception as e:
            ctx.violation('oracle', '_get_pixel_id raised %s' % type(e).__name__, case, key=None)
            continue
        for k, (coords, pp, want_cell) in enumerate(((ys, p[0], cy), (xs, p[1], cx))):
            near, outside, _ = nearest_centres(coords, pp)
            if got[k] not in near:
                trunc = int(abs(pp - coords[0]) / (abs(Fraction(coords[-1]) - Fraction(coords[0])) / (len(coords) - 1)))
                ctx.violation('oracle', '_get_pixel_id: coordinate %r on centres %r denotes cell %r (nearest centre), got %r' % (
                    pp, coords, sorted(near), got[k]), dict(case, axis=k, got=got[k]),
                    key='pixel-id-truncates' if trunc == got[k] else None)
                break
        lines.append('pix %d %s %s %s' % (h, ' '.join(fhex(v) for v in ys), fhex(res[1]) if res else '-', fhex(p[0])))
        info.append((case, got[0], 'y'))
        lines.append('pix %d %s %s %s' % (w, ' '.join(fhex(v) for v in xs), fhex(res[0]) if res else '-', fhex(p[1])))
        info.append((case, got[1], 'x'))
        # exact integer model where everything is dyadic and regularly spaced
        for coords, pp, g in ((ys, p[0], got[0]), (xs, p[1], got[1])):
            s = xvio.scale_for(list(coords) + [pp])
            if s <= 2 ** 20:
                ic = [int(Fraction(c) * s) for c in coords]
                if all(ic[j + 1] - ic[j] == ic[1] - ic[0] for j in range(len(ic) - 1)) and abs(ic[-1]) < 2 ** 40:
                    lines.append('pixz %d %d %d' % (int(Fraction(pp) * s), ic[0], ic[1] - ic[0]))
                    info.append((case, g, 'exact'))
    if ctx.model is None:
        return
    outs = ctx.model.run(lines)
    bad = 0
    for (case, g, which), mo in zip(info, outs):
        ctx.traces += 1
        if mo.strip() != str(g) and bad < 5:
            bad += 1
            ctx.violation('correspondence', '_get_pixel_id (%s model): implementation index %r vs model %s' % (which, g, mo),
                          dict(case, which=which, impl=g, model=mo))


def exact_cases(ctx, n):
    """exact instance (a + b sqrt2) vs implementation goal value and vs the model's Bellman-Ford reference; sgn3 cross-check"""
    if ctx.model is None:
        return
    pf = _pf()
    rng = ctx.rng
    lines, info = [], []
    for i in range(n):
        h, w = rng.randint(2, 7), rng.randint(2, 7)
        lay = maze(rng, h, w) if rng.random() < 0.6 else [[1.0 if rng.random() < 0.7 else 0.0 for _ in range(w)] for _ in range(h)]
        data, barriers = decorate(rng, lay)
        conn = rng.choice([4, 8])
        fr = [(y, x) for y in range(h) for x in range(w) if lay[y][x]] or [(0, 0)]
        s, g = rng.choice(fr), rng.choice(fr)
        out = run_kernel(pf, np.array(data), conn, np.array(barriers), s, g)
        ctx.count('exact/conn%d' % conn)
        ctx.evaluations += 1
        lines.append(cells_line('exact', conn, 0, 0, data, barriers, s, g))
        info.append(('exact', out, g, w, (data, barriers, conn, s, g)))
        lines.append('bf %d %s %d %d %d %d' % (conn, grid_line(data, barriers), s[0], s[1], g[0], g[1]))
        info.append(('bf', out, g, w, (data, barriers, conn, s, g)))
    getcontext().prec = 80
    r2 = Decimal(2).sqrt()
    for i in range(n * 4):
        a, b = rng.randint(-30, 30), rng.randint(-30, 30)
        m, k = rng.randint(0, 60), rng.randint(0, 60)
        if rng.random() < 0.3:      # force exact ties
            m, k = rng.choice([(0, 0), (2 * b * b, 0), (0, 2 * b * b), (a * a, 0), (0, a * a), (m, m)])
            if rng.random() < 0.5:
                a = 0
            else:
                b = 0
        val = Decimal(a) + Decimal(b) * r2 + Decimal(m).sqrt() - Decimal(k).sqrt()
        sg = 0 if abs(val) < Decimal(10) ** -50 else (1 if val > 0 else -1)
        lines.append('sgn3 %d %d %d %d' % (a, b, m, k))
        info.append(('sgn3', sg, (a, b, m, k)))
    outs = ctx.model.run(lines)
    bad = 0
    for inf, mo in zip(info, outs):
        ctx.traces += 1
        if bad >= 5:
            break
        if inf[0] == 'sgn3':
            if mo.strip() != str(inf[1]):
                bad += 1
                ctx.violation('correspondence', 'exact comparator sgn3%r = %s but the sign is %d (80-digit decimal)' % (inf[2], mo, inf[1]),
                              dict(fn='sgn3', args=list(inf[2]), model=mo))
            continue
        kind, out, g, w, (data, barriers, conn, s, gg) = inf
        gv = float(out[g[0], g[1]])
        case = dict(fn='kernel', data=data, barriers=barriers, conn=conn, start=list(s), goal=list(g))
        if kind == 'bf':
            mv = None if mo == 'none' else (lambda t: int(t[0]) + int(t[1]) * SQRT2)(mo.split(','))
        else:
            if mo in ('STUCK', 'FUEL') or mo.startswith('ERR'):
                bad += 1
                ctx.violation('correspondence', 'exact model returned %s' % mo, case)
                continue
            t = mo.split()[g[0] * w + g[1]]
            mv = None if t == 'nan' else (lambda q: int(q[0]) + int(q[1]) * SQRT2 + math.sqrt(int(q[2])))(t.split(','))
        if (mv is None) != math.isnan(gv) or (mv is not None and abs(mv - gv) > 1e-9):
            bad += 1
            ctx.violation('correspondence', 'goal value: implementation %r vs %s model %s' % (gv, kind, mo[:80]), dict(case, model=mo[:200]))


def canary(ctx):
    """The search loops of the implementation are jitted `while` loops: a defect there can make a call never return
    (and an in-process call cannot be interrupted).  Run a sample of detour cases in a child process with a timeout
    first; report the case that hangs as a failing input and abandon the in-process run."""
    import json
    import random
    import subprocess
    import sys
    import tempfile
    rng = random.Random(ctx.rng.getrandbits(32))
    cases = []
    for i in range(30):
        cases.append(gen_api_case(rng, maze(rng, rng.randint(3, 9), rng.randint(3, 9)), conn=(4, 8)[i % 2], unit=True, fam='centre'))
    for i in range(60):
        h, w = rng.choice([(2, 2), (2, 3), (3, 3), (3, 4), (1, 4)])
        lay = [[1.0 if rng.random() < 0.75 else 0.0 for _ in range(w)] for _ in range(h)]
        cases.append(gen_api_case(rng, lay, snap=(i % 2 == 0, i % 3 == 0), unit=True, fam='centre'))
    d = tempfile.mkdtemp(prefix='c14canary')
    cf, pfile = os.path.join(d, 'cases.json'), os.path.join(d, 'progress')
    from harness import common
    json.dump(common.jsonable(cases), open(cf, 'w'))
    limit = 480    # ~15 s unloaded (import + JIT + 90 small searches); generous so that a loaded machine never trips it
    import shutil
    try:
        try:
            p = subprocess.run([sys.executable, '-m', 'harness.props.c14', '--canary', cf, pfile], timeout=limit,
                               stdout=subprocess.PIPE, stderr=subprocess.PIPE, cwd=common.VERIF)
            if p.returncode != 0:
                ctx.violation('correspondence', 'canary process failed: %s' % p.stderr.decode()[-300:], {'canary': True})
            return True
        except subprocess.TimeoutExpired:
            try:
                i = int(open(pfile).read().strip() or 0)
            except Exception:
                i = 0
            case = cases[min(i, len(cases) - 1)]
            ctx.case(case)
            ctx.violation('oracle', 'a_star_search did not return within %d s (non-terminating search loop) for start %r goal %r on a %dx%d '
                          'surface' % (limit, case['start'], case['goal'], len(case['data']), len(case['data'][0])),
                          dict(case, hang=True), key=None)
            return False
    finally:
        shutil.rmtree(d, ignore_errors=True)


def _norm(c):
    """undo the JSON encoding of NaN / inf (strings) in a stored case"""
    c = dict(c)
    for k in ('data',):
        if k in c:
            c[k] = [[float(v) for v in row] for row in c[k]]
    for k in ('barriers', 'ys', 'xs', 'start', 'goal', 'point'):
        if k in c and c[k] is not None:
            c[k] = [float(v) for v in c[k]]
    return c


def _canary_main(cf, pfile):
    import json
    cases = json.load(open(cf))
    for i, c in enumerate(cases):
        with open(pfile, 'w') as f:
            f.write(str(i))
        run_api(_norm(c))


def build_agg(case):
    ydim, xdim = case.get('dims', ['y', 'x'])
    return xr.DataArray(np.array(case['data'], dtype='float64'), dims=[ydim, xdim],
                        coords={ydim: np.array(case['ys'], dtype='float64'), xdim: np.array(case['xs'], dtype='float64')},
                        attrs=dict(case.get('attrs') or {}))


def derive(agg, how):
    ydim, xdim = agg.dims
    if how[0] == 'stride':
        return agg[::how[1], ::how[2]]
    if how[0] == 'rescale':                    # the same cells on rescaled / shifted coordinates
        return agg.assign_coords({ydim: agg[ydim] * how[1] + how[2], xdim: agg[xdim] * how[1] - how[2]})
    if how[0] == 'window':
        return agg[how[1]:, how[2]:]
    if how[0] == 'copy':
        return agg.copy()
    if how[0] == 'astype':
        return agg.astype(how[1])
    return agg


def run_sequence(case):
    """a raster WITHOUT a res attribute is routed, then a derived view of the SAME DataArray (strided, re-scaled coordinates,
    window) is routed in the same process.  -> (list of (sub-case as an ordinary api case, result), attrs before, attrs after)"""
    agg = build_agg(case)
    before = dict(agg.attrs)
    snap0 = (agg.values.tobytes(), [agg[d].values.tobytes() for d in agg.dims], str(agg.dtype), tuple(agg.dims))
    out = []
    cur = agg
    for step in case['steps']:
        cur = derive(cur, step['derive'])
        ydim, xdim = cur.dims
        ys = [float(v) for v in cur[ydim].values]
        xs = [float(v) for v in cur[xdim].values]
        s, g = step['start_cell'], step['goal_cell']
        if not ys or not xs:
            continue
        s = (min(s[0], len(ys) - 1), min(s[1], len(xs) - 1))
        g = (min(g[0], len(ys) - 1), min(g[1], len(xs) - 1))
        sub = dict(fn='api', data=[[float(v) for v in row] for row in cur.values.tolist()],
                   barriers=step.get('barriers', case['barriers']),
                   conn=step.get('conn', case['conn']), snap_start=step.get('snap_start', False), snap_goal=step.get('snap_goal', False),
                   ys=ys, xs=xs, res=None, dims=list(cur.dims), fam='centre',
                   start=[ys[s[0]], xs[s[1]]], goal=[ys[g[0]], xs[g[1]]])      # the cells' OWN coordinates
        out.append((sub, run_api(sub, agg=cur)))
    snap1 = (agg.values.tobytes(), [agg[d].values.tobytes() for d in agg.dims], str(agg.dtype), tuple(agg.dims))
    after = dict(agg.attrs)
    if snap0 != snap1:
        after['__data_or_coords_changed__'] = True
    return out, before, after


def check_sequence(ctx, case, model_pending=None):
    subs, before, after = run_sequence(case)
    for i, (sub, res) in enumerate(subs):
        if i > 0 and case['steps'][i].get('same_as_prev') and repr(res) != repr(subs[i - 1][1]):
            ctx.violation('oracle', 'a_star_search: the same call repeated on the same raster gives a different result',
                          dict(case, failing_call=i + 1, first=subs[i - 1][1][1], second=res[1]), key=None)
            return
        if len(sub['ys']) < 2 or len(sub['xs']) < 2:
            continue                            # resolution of a single row/column is undefined without res
        o = oracle_api(sub, res)
        if o is not None:
            ctx.violation('oracle', 'a_star_search, call %d of a sequence on one raster (%s): %s' % (
                i + 1, ' then '.join(str(st['derive']) for st in case['steps'][:i + 1]), o[0]),
                dict(case, failing_call=i + 1, sub_case=sub, got=res[1]), key=None)
            return
        if model_pending is not None:
            model_pending.append((full_line(sub), res, dict(case, failing_call=i + 1, sub_case=sub)))
    if sorted(before) != sorted(after) or any(repr(before[k]) != repr(after[k]) for k in before):
        ctx.violation('oracle', 'a_star_search changed the attrs of its input raster: %r -> %r (a later call on a derived view '
                      'then uses them instead of its coordinates)' % (before, after), dict(case, attrs_after=repr(after)), key=None)


def gen_sequence(rng):
    h, w = rng.randint(4, 9), rng.randint(4, 9)
    lay = [[1.0 if rng.random() < 0.85 else 0.0 for _ in range(w)] for _ in range(h)]
    data, barriers = decorate(rng, lay)
    ys, _ = axis(rng, h)
    xs, _ = axis(rng, w)
    derivs = [('stride', 2, 2), ('stride', 1, 3), ('stride', 2, 1), ('stride', 3, 2), ('rescale', rng.choice([2.0, 0.5, 10.0]), rng.choice([0.0, 5.0])),
              ('window', 1, 2), ('stride', 2, 2)]
    steps = [dict(derive=('none',), start_cell=[rng.randrange(h), rng.randrange(w)], goal_cell=[rng.randrange(h), rng.randrange(w)])]
    for _ in range(rng.choice([1, 1, 2])):
        steps.append(dict(derive=rng.choice(derivs), start_cell=[rng.randrange(h), rng.randrange(w)],
                          goal_cell=[rng.randrange(h), rng.randrange(w)],
                          snap_start=rng.random() < 0.3, snap_goal=rng.random() < 0.3))
    return dict(fn='sequence', data=data, barriers=barriers, conn=rng.choice([4, 8]), ys=ys, xs=xs,
                dims=rng.choice([['y', 'x'], ['lat', 'lon']]), attrs=rng.choice([{}, {}, {'crs': 'EPSG:4326', 'nodata': -1}]),
                steps=steps)


def sequence_cases(ctx, n):
    pending = []
    for i in range(n):
        case = gen_sequence(ctx.rng)
        ctx.case(case)
        ctx.count('sequence/%s' % '+'.join(st['derive'][0] for st in case['steps'][1:]))
        check_sequence(ctx, case, pending)
    if ctx.model is not None and pending:
        outs = ctx.model.run([p[0] for p in pending])
        bad = 0
        for (line, res, case), mo in zip(pending, outs):
            if not compare_float(ctx, 'a_star_search (sequence) vs model', res, mo, case):
                bad += 1
                if bad > 5:
                    break


EXTREME = [0.1, float(2 ** 24 + 1), float(2 ** 31 + 5), 2.0 ** -60, 2.0 ** 70, -0.3, 1e-9]


def theme_cases(ctx, n):
    """appended stream (round-5 themes): memory layout of the surface and of the coordinate arrays (F order, transposed, strided,
    reversed views, non-writeable), barrier arrays of other dtypes / strided, barrier values that are not float32 numbers, beyond
    2**31, tiny or huge, with the free cells one ulp around them IN THE CELL'S OWN DTYPE, float32 coordinates, spacing 1e6 / 1e-6 /
    arc-seconds, all-equal and all-NaN surfaces"""
    rng = ctx.rng
    cases = []
    layouts_ = ['F', 'T', 'strided', 'reversed', 'readonly']
    bkinds = ['np:int32', 'np:float32', 'np:uint8', 'np:int16', 'np:int64', 'strided']
    if ctx.quick():
        bkinds = rng.sample(bkinds[:5], 2) + ['strided']
    for i in range(n):
        fam = i % 5
        h, w = rng.randint(2, 7), rng.randint(2, 7)
        lay = [[1.0 if rng.random() < 0.7 else 0.0 for _ in range(w)] for _ in range(h)]
        if fam == 0:                                             # memory layouts
            c = gen_api_case(rng, maze(rng, h + 2, w + 2) if i % 2 else lay, unit=(i % 3 == 0),
                             dtype='float64' if i % 4 else 'int64')
            c['layout'] = layouts_[(i // 5) % len(layouts_)]
            c['coord_dtype'] = 'float64'
        elif fam == 1:                                           # barrier arrays of another dtype (integral, non-negative values)
            c = gen_api_case(rng, lay, unit=(i % 3 == 0), dtype='float64' if i % 2 else 'int64')
            c['barriers'] = [b for b in c['barriers'] if not isnan(b) and not math.isinf(b)] or [0.0]
            c['data'] = [[(0.0 if (isnan(v) or math.isinf(v)) and not lay[y][x] else v) for x, v in enumerate(row)]
                         for y, row in enumerate(c['data'])]
            if 0.0 not in c['barriers']:
                c['barriers'].append(0.0)
            c['data'] = [[(1.0 if lay[y][x] and (v in c['barriers'] or isnan(v) or math.isinf(v) or v < 0 or v != int(v)) else v)
                          for x, v in enumerate(row)] for y, row in enumerate(c['data'])]
            c['barrier_kind'] = bkinds[(i // 5) % len(bkinds)]
        elif fam == 2:                                           # extreme barrier values and their ulp neighbours
            dt = ['float64', 'float64', 'float32', 'int64'][(i // 5) % 4]
            c = gen_api_case(rng, lay, unit=(i % 3 == 0), dtype=dt)
            if dt == 'int64':
                vals = [float(2 ** 24 + 1), float(2 ** 31 + 5), float(2 ** 40)]
                near = lambda v: [v - 1.0, v + 1.0]
                kind = 'int'
            elif dt == 'float32':
                vals = [float(np.float32(v)) for v in EXTREME if v != float(2 ** 31 + 5)]
                near = lambda v: [float(np.nextafter(np.float32(v), np.float32(np.inf))), float(np.nextafter(np.float32(v), np.float32(-np.inf)))]
                kind = rng.choice(['list', 'np:float32'])
            else:
                vals = list(EXTREME)
                near = lambda v: [float(np.nextafter(v, np.inf)), float(np.nextafter(v, -np.inf))]
                kind = rng.choice(['list', 'ndarray', 'tuple'])
            bs = rng.sample(vals, rng.choice([1, 2, 3]))
            pool = [x for v in bs for x in near(v)] + [1.0]
            c['barriers'] = bs
            c['barrier_kind'] = kind
            c['data'] = [[(rng.choice(pool) if lay[y][x] else rng.choice(bs)) for x in range(w)] for y in range(h)]
        elif fam == 3:                                           # coordinates: float32 arrays, huge / tiny / arc-second spacing
            c = gen_api_case(rng, lay, unit=True, fam='centre')
            step = rng.choice([1e6, 1e-6, 1.0 / 3600.0, 250.0, 1e3])
            oy, ox = rng.choice([(0.0, 0.0), (-2e6, 5e5), (45.0, -120.0)])
            if step < 1e-3 and abs(oy) > 100:
                oy, ox = 0.0, 0.0
            sgy, sgx = rng.choice([1, -1]), rng.choice([1, -1])
            sy_, sx_ = step, step * rng.choice([1.0, 1.0, 2.0])
            ys = [oy + sgy * k * sy_ for k in range(h)]
            xs = [ox + sgx * k * sx_ for k in range(w)]
            if i % 2 and step in (250.0, 1e3, 1e6):
                c['coord_np_dtype'] = 'float32'
                c['layout'] = 'C'
                ys = [float(np.float32(v)) for v in ys]
                xs = [float(np.float32(v)) for v in xs]
            # re-express the unit-grid end points (cell indices) on the new axes; off-centre by a quarter cell sometimes
            si, sj = int(round(abs(c['start'][0] - c['ys'][0]))), int(round(c['start'][1]))
            gi, gj = int(round(abs(c['goal'][0] - c['ys'][0]))), int(round(c['goal'][1]))
            q = 0.0 if c.get('coord_np_dtype') else rng.choice([0.0, 0.25, -0.25])
            c.update(ys=ys, xs=xs, res=None, coord_dtype='float64', point_kind='tuple',
                     start=[ys[si] + q * sy_, xs[sj] - q * sx_], goal=[ys[gi] - q * sy_, xs[gj] + q * sx_])
        else:                                                    # degenerate surfaces: all equal, all NaN, all one barrier value
            c = gen_api_case(rng, lay, unit=(i % 3 == 0))
            kind = (i // 5) % 3
            bs = [b for b in c['barriers'] if not isnan(b)] or [0.0]
            c['barriers'] = bs
            v = 3.0 if kind == 0 else (float('nan') if kind == 1 else bs[0])
            c['data'] = [[v] * w for _ in range(h)]
        c['theme'] = ['layout', 'barrier-dtype', 'extreme-values', 'coords', 'degenerate'][fam]
        ctx.count('theme/%s/%s' % (c['theme'], (c.get('layout') or c.get('barrier_kind')) if fam < 2 else
                                   (c.get('coord_np_dtype', 'float64') if fam == 3 else c.get('dtype'))))
        cases.append(c)
    api_batch(ctx, cases, 'api-theme')


def gen_sequence2(rng):
    """appended sequence stream: the same call repeated, copies / astype of a processed raster, interleaved parameters"""
    h, w = rng.randint(3, 8), rng.randint(3, 8)
    lay = [[1.0 if rng.random() < 0.8 else 0.0 for _ in range(w)] for _ in range(h)]
    data, barriers = decorate(rng, lay)
    ys, _ = axis(rng, h)
    xs, _ = axis(rng, w)
    s0, g0 = [rng.randrange(h), rng.randrange(w)], [rng.randrange(h), rng.randrange(w)]
    steps = [dict(derive=('none',), start_cell=s0, goal_cell=g0)]
    for _ in range(rng.choice([2, 3])):
        k = rng.choice(['repeat', 'copy', 'astype', 'conn', 'barriers', 'stride'])
        st = dict(derive=('none',), start_cell=[rng.randrange(h), rng.randrange(w)], goal_cell=[rng.randrange(h), rng.randrange(w)])
        if k == 'repeat':
            st = dict(steps[-1], derive=('none',), same_as_prev=True)
        elif k == 'copy':
            st['derive'] = ('copy',)
        elif k == 'astype':
            st['derive'] = ('astype', 'float32')
        elif k == 'conn':
            st['conn'] = rng.choice([4, 8])
        elif k == 'barriers':
            st['barriers'] = barrier_list(rng)
        else:
            st['derive'] = ('stride', rng.choice([1, 2]), rng.choice([2, 3]))
        steps.append(st)
    return dict(fn='sequence', data=data, barriers=barriers, conn=rng.choice([4, 8]), ys=ys, xs=xs,
                dims=rng.choice([['y', 'x'], ['lat', 'lon']]), attrs=rng.choice([{}, {'crs': 'EPSG:4326'}]), steps=steps)


def sequence2_cases(ctx, n):
    pending = []
    for i in range(n):
        case = gen_sequence2(ctx.rng)
        ctx.case(case)
        for st in case['steps'][1:]:
            ctx.count('sequence2/%s' % ('repeat' if st.get('same_as_prev') else ('conn' if 'conn' in st else (
                'barriers' if 'barriers' in st else st['derive'][0]))))
        check_sequence(ctx, case, pending)
    if ctx.model is not None and pending:
        outs = ctx.model.run([p[0] for p in pending])
        bad = 0
        for (line, res, case), mo in zip(pending, outs):
            if not compare_float(ctx, 'a_star_search (sequence) vs model', res, mo, case):
                bad += 1
                if bad > 5:
                    break


def connectivity_probe(ctx):
    """connectivity is quantified over {4, 8}: equivalent spellings (8.0, np.int64(4)) must behave like 4 / 8, anything else is
    refused with ValueError by the unchanged code — it must never be silently treated as one of the two"""
    from xrspatial import a_star_search
    rng = ctx.rng
    lay = [[1.0, 1.0, 1.0], [1.0, 0.0, 1.0], [1.0, 1.0, 1.0]]
    agg = xr.DataArray(np.array(lay), dims=['y', 'x'], coords={'y': [0., 1., 2.], 'x': [0., 1., 2.]})
    for conn in [0, 1, 2, 6, 16, -8, '8', None, 4.5]:
        ctx.evaluations += 1
        ctx.count('connectivity/invalid')
        try:
            out = a_star_search(agg, (0., 0.), (2., 2.), [0], connectivity=conn)
        except (ValueError, TypeError):
            continue
        ctx.violation('correspondence', 'a_star_search accepted connectivity=%r (only 4 and 8 are defined) and returned %r' % (
            conn, np.asarray(out.data).tolist()), dict(fn='connectivity', connectivity=repr(conn)))
    for conn, same in [(8.0, 8), (np.int64(4), 4), (np.int32(8), 8)]:
        ctx.evaluations += 1
        ctx.count('connectivity/spelling')
        a = np.asarray(a_star_search(agg, (0., 0.), (2., 2.), [0], connectivity=conn).data)
        b = np.asarray(a_star_search(agg, (0., 0.), (2., 2.), [0], connectivity=same).data)
        if not np.array_equal(a, b, equal_nan=True):
            ctx.violation('oracle', 'connectivity=%r gives a different result from connectivity=%d' % (conn, same),
                          dict(fn='connectivity', connectivity=repr(conn)))


def run(ctx):
    pf = _pf()
    rng = ctx.rng
    quick = ctx.quick()
    ctx.exhaustive = False
    if not canary(ctx):
        return
    if quick:
        kshapes = [(h, w) for h in (1, 2, 3) for w in (1, 2, 3)] + [(2, 4), (4, 2), (1, 5), (5, 1)]
    else:
        kshapes = [(h, w) for h in (1, 2, 3) for w in (1, 2, 3, 4)] + [(4, 1), (4, 2), (4, 3)]
    exhaustive_kernel(ctx, pf, kshapes)
    exhaustive_snap(ctx, pf, kshapes)
    far_islands(ctx, pf)
    # ---- public API on sampled small layouts (unit + fractional coordinates), snap on/off -------------
    cases = []
    extra_dtypes = rng.sample(OTHER_DTYPES, 1) if quick else OTHER_DTYPES
    n_small = 1500 if quick else 16000
    for i in range(n_small):
        h, w = rng.choice([(2, 2), (2, 3), (3, 2), (3, 3), (3, 3), (1, 3), (3, 1), (3, 4), (4, 3)])
        lay = [[1.0 if rng.random() < 0.6 else 0.0 for _ in range(w)] for _ in range(h)]
        snap = [(False, False), (True, False), (False, True), (True, True)][i % 4]
        dtype = 'int64' if i % 10 == 9 else (extra_dtypes[(i // 10) % len(extra_dtypes)] if i % 10 == 8 else 'float64')
        cases.append(gen_api_case(rng, lay, conn=(4, 8)[(i // 4) % 2], snap=snap, unit=(i % 3 == 0), dtype=dtype))
    # snapping corner cases: a single crossable cell, every position, every end point
    for (h, w) in [(2, 2), (3, 3), (2, 4), (3, 2)]:
        for y in range(h):
            for x in range(w):
                lay = [[0.0] * w for _ in range(h)]
                lay[y][x] = 1.0
                for k in range(2 if quick else 6):
                    cases.append(gen_api_case(rng, lay, snap=(True, True), unit=(k == 0), fam='centre' if k == 0 else None))
    api_batch(ctx, cases, 'api-small')
    # ---- mazes with forced detours ---------------------------------------------------------------------
    cases = []
    n_maze = 1200 if quick else 12000
    for i in range(n_maze):
        h, w = rng.randint(3, 9), rng.randint(3, 9)
        if i % 3 == 0:
            h, w = rng.randint(6, 9), rng.randint(6, 9)
        cases.append(gen_api_case(rng, maze(rng, h, w), conn=(4, 8)[i % 2], unit=(i % 4 == 0)))
    api_batch(ctx, cases, 'api-maze')
    # ---- rasters larger than 9x9 (mazes) and long single rows / columns ---------------------------------
    cases = []
    for i in range(24 if quick else 500):
        hi = 16 if quick else 28
        h, w = rng.randint(10, hi), rng.randint(3, hi)
        if i % 2:
            h, w = w, h
        cases.append(gen_api_case(rng, maze(rng, h, w), conn=(4, 8)[i % 2], unit=(i % 3 == 0)))
    for i in range(12 if quick else 200):
        n = rng.randint(10, 40 if quick else 120)
        h, w = (1, n) if i % 2 else (n, 1)
        lay = [[1.0 if rng.random() < 0.9 else 0.0 for _ in range(w)] for _ in range(h)]
        cases.append(gen_api_case(rng, lay, conn=(4, 8)[(i // 2) % 2], unit=(i % 3 == 0)))
    api_batch(ctx, cases, 'api-large')
    # ---- malformed / edge stream -----------------------------------------------------------------------
    cases = []
    for i in range(120 if quick else 1200):
        h, w = rng.choice([(1, 1), (1, 4), (4, 1), (2, 2), (3, 3), (4, 5)])
        lay = [[1.0 if rng.random() < 0.7 else 0.0 for _ in range(w)] for _ in range(h)]
        c = gen_api_case(rng, lay, unit=(i % 2 == 0))
        u = rng.random()
        if u < 0.3:
            c['res'] = None                      # single row/column without res: resolution undefined
        elif u < 0.7:                            # a point more than half a cell outside, on any side, start or goal
            who = rng.choice(['start', 'goal'])
            k = rng.choice([0, 1])
            coords = c['ys'] if k == 0 else c['xs']
            if len(coords) > 1:
                step = abs(coords[1] - coords[0])
            else:
                step = c['res'][1 - k] if c.get('res') else 1.0
            far = rng.choice([0.75, 1.0, 2.0, 3.0, 7.5])
            c[who][k] = (max(coords) + step * far) if rng.random() < 0.5 else (min(coords) - step * far)
            c['fam'] = 'outside'
        cases.append(c)
    api_batch(ctx, cases, 'api-edge')
    connectivity_probe(ctx)
    sequence_cases(ctx, 200 if quick else 3000)
    pixel_cases(ctx, 300 if quick else 4000)
    exact_cases(ctx, 150 if quick else 2000)
    # ---- appended streams (after everything else so that earlier rng draws do not shift) -----------------
    theme_cases(ctx, 250 if quick else 5000)
    sequence2_cases(ctx, 120 if quick else 2000)


def search(ctx):
    """An obligation or the correspondence broke and the normal run showed no failing input: run the oracle harder."""
    old, model = ctx.tier, ctx.model
    ctx.tier = 'thorough'
    ctx.model = None
    try:
        run(ctx)
    finally:
        ctx.tier, ctx.model = old, model


def replay_case(ctx, case):
    pf = _pf()
    case = _norm(case)
    ctx.case(case)
    fn = case.get('fn')
    if fn == 'sequence':
        check_sequence(ctx, case)
    elif fn == 'api':
        res = run_api(case)
        o = oracle_api(case, res)
        if o is not None:
            ctx.violation('oracle', 'a_star_search: %s' % o[0], dict(case, got=res[1]), key=o[1])
    elif fn == 'kernel':
        data = case['data']
        barriers = case['barriers']
        h, w = len(data), len(data[0])
        free = [[not blocked_val(v, barriers) for v in row] for row in data]
        s, g = tuple(case['start']), tuple(case['goal'])
        out = run_kernel(pf, np.array(data, dtype='float64'), case['conn'], np.array(barriers), s, g).tolist()
        cache = {}
        what = check_path(out, free, h, w, case['conn'], {s}, {g},
                          lambda s_: cache.setdefault(s_, dijkstra_all(free, h, w, case['conn'], s_)))
        if what is not None:
            ctx.violation('oracle', '_a_star_search: %s' % what, dict(case, got=out))
    elif fn == 'snap':
        data = case['data']
        barriers = case['barriers']
        h, w = len(data), len(data[0])
        free = [[not blocked_val(v, barriers) for v in row] for row in data]
        y, x = case['cell']
        got = tuple(int(v) for v in pf._find_nearest_pixel(y, x, np.array(data, dtype='float64'), np.array(barriers)))
        want = snap_targets(free, h, w, (y, x))
        if (None if got == (-1, -1) else got) not in want:
            ctx.violation('oracle', '_find_nearest_pixel(%d, %d) returned %r, nearest crossable is %r' % (y, x, got, sorted(want, key=str)),
                          dict(case, got=list(got)), key='snap-corner-to-corner' if got == (-1, -1) else None)
    elif fn == 'pixel':
        h, w = len(case['ys']), len(case['xs'])
        agg = xr.DataArray(np.zeros((h, w)), dims=['y', 'x'], coords={'y': case['ys'], 'x': case['xs']},
                           attrs={'res': tuple(case['res'])} if case.get('res') else {})
        got = tuple(int(v) for v in pf._get_pixel_id(tuple(case['point']), agg, 'x', 'y'))
        for k, coords in enumerate((case['ys'], case['xs'])):
            near, _, _ = nearest_centres(coords, case['point'][k])
            if got[k] not in near:
                ctx.violation('oracle', '_get_pixel_id: coordinate %r denotes cell %r, got %r' % (case['point'][k], sorted(near), got[k]),
                              dict(case, got=list(got)), key='pixel-id-truncates')
                return


if __name__ == '__main__':
    import sys
    if len(sys.argv) == 4 and sys.argv[1] == '--canary':
        warnings.filterwarnings('ignore')
        _canary_main(sys.argv[2], sys.argv[3])
